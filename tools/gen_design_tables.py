#!/usr/bin/env python3
"""Rewrites the generated tables of DESIGN.md (between <!-- BEGIN x --> / <!-- END x --> markers) from
known_findings.json, seeded/*/meta.json and evidence/*.json."""
import json, glob, os, re
os.chdir('/verif')
s = open('DESIGN.md').read()
def put(name, body):
    global s
    a, b = f'<!-- BEGIN {name} -->', f'<!-- END {name} -->'
    i, j = s.index(a) + len(a), s.index(b)
    s = s[:i] + '\n' + body.rstrip('\n') + '\n' + s[j:]
def cell(t):
    return str(t).replace('|', '\\|').replace('\n', ' ')
# findings by root cause (= fix commit, or signature for open ones)
k = json.load(open('known_findings.json'))['findings']
groups = {}
for f in k:
    key = (f['property'], f.get('commit') or f['sig'], f['status'])
    groups.setdefault(key, []).append(f)
rows = ['| property | status | commit | what failed (signatures) |', '|---|---|---|---|']
for (pid, key, status), fs in sorted(groups.items()):
    what = fs[0]['what'] if len(fs) == 1 else '; '.join(sorted({f['what'] for f in fs}))
    sigs = ', '.join(f'`{cell(f["sig"])[:70]}`' for f in fs[:4]) + (f' … (+{len(fs)-4})' if len(fs) > 4 else '')
    rows.append(f'| {pid} | {status} | {fs[0].get("commit") or "—"} | {cell(what)[:420]} — {sigs} |')
n_fixed = len({(p, c) for (p, c, st) in groups if st == 'fixed'})
n_open = len([1 for (p, c, st) in groups if st == 'open'])
rows.append('')
rows.append(f'{n_fixed} repaired root causes (distinct property/commit pairs), {n_open} open findings, {len(k)} signatures in `known_findings.json`.')
put('findings-table', '\n'.join(rows))
# seeded changes
rows = ['| seeded change | property | what it breaks | needs | detected by | remark |', '|---|---|---|---|---|---|']
for m in sorted(glob.glob('seeded/*/meta.json')):
    d = json.load(open(m))
    name = m.split('/')[1]
    ok = d.get('confirmed', {})
    conf = all(ok.get(x) for x in ('demo_passes_without_change', 'demo_fails_with_change', 'existing_lib_tests_pass_with_change'))
    rows.append(f'| `{name}` | {d.get("property")} | {cell(d.get("summary",""))[:260]} | {cell(d.get("needs",""))[:200]} | {", ".join(d.get("detected_by", [])) or "**missed**"} | {"" if conf else "not fully confirmed; "}{cell(d.get("note",""))[:260]} |')
missed = [json.load(open(m)) for m in sorted(glob.glob('seeded/*/meta.json'))]
n_all = len(missed)
first_missed = [d for d in missed if 'missed' in d.get('note', '').lower()]
still = [d for d in missed if not d.get('detected_by')]
rows.append('')
rows.append(f'{n_all} seeded changes in total; {len(first_missed)} of them were missed by the check as it was when they arrived (properties ' + ', '.join(sorted({d["property"] for d in first_missed})) + f') and are detected after the generator was strengthened as the remark says; {len(still)} are still undetected.')
put('seeds-table', '\n'.join(rows))
# what runs, from the evidence files
rows = ['| property | parts (cases per quick run) | non-trivial / evaluations in the committed quick evidence |', '|---|---|---|']
for m in sorted(glob.glob('evidence/C*.json')):
    e = json.load(open(m)); c = e['coverage']
    parts = ', '.join(f'{a} {b}' for a, b in c.get('evaluations_per_part', {}).items())
    rows.append(f'| {e["property_id"]} | {cell(parts)} | {c["distinct_nontrivial"]} / {c["evaluations"]} ({e.get("tier")}) |')
put('runs-table', '\n'.join(rows))
open('DESIGN.md', 'w').write(s)
print('tables written')

#!/usr/bin/env python3
"""Prints the prompt given to an independent sub-agent that is asked to seed a property-breaking change.
Usage: seed_prompt.py <Cxx> [variant-hint]   (creates the scratch worktree /tmp/wt_<Cxx><suffix> as a side effect)"""
import json, sys, subprocess, os
pid = sys.argv[1]
suffix = sys.argv[2] if len(sys.argv) > 2 else ''
hint = sys.argv[3] if len(sys.argv) > 3 else ''
p = [json.loads(l) for l in open('/verif/properties.jsonl') if json.loads(l)['id'] == pid][0]
wt = f'/tmp/wt_{pid}{suffix}'
if not os.path.exists(wt):
    subprocess.run(['git', '-C', '/repo', 'worktree', 'add', '--detach', wt, 'HEAD'], check=True, capture_output=True)
text = json.dumps({k: p[k] for k in ('id', 'title', 'statement', 'quantifier', 'why_tests_cant', 'anchors') if k in p}, indent=1)
print(f"""You are working on a Rust project (locka99/opcua, an OPC UA client/server library; the crate is in lib/) in a scratch git worktree at {wt}. That directory is your ONLY working area: do not read or write /repo, /verif or any other directory outside {wt} (and /tmp/wt_{pid}{suffix}_* for scratch files). The sandbox is offline: always pass --offline to cargo (CARGO_NET_OFFLINE=true). 16 cores; a cold `cargo test --offline -p opcua --lib --no-run` takes a few minutes.

Here is a semantic property the library is supposed to satisfy:

{text}

Your task is to play the role of a developer who introduces a realistic REGRESSION: make a small change to the library source (under lib/src/, non-test code) that BREAKS this property, while the crate still compiles and the EXISTING test suite still passes (run at least `cargo test --offline -p opcua --lib 2>&1 | tail -n 30` and confirm no new failures relative to the unchanged tree; `server::tests::services::monitored_item::monitored_item_event_filter` fails on the unchanged tree too and a handful of integration tests are flaky - ignore those). {hint}

Requirements for the change:
- It should look like a plausible refactoring slip, optimisation, off-by-one, wrong comparison, forgotten update, missed case, or two cooperating edits that each look fine alone - not sabotage that ordinary use would expose at once.
- It must need something SPECIFIC to manifest: an unusual input or boundary value, a particular multi-step sequence of operations, a particular interleaving/ordering, a fault at a particular point, or a specific configuration. Ordinary happy-path use (and the existing tests) must keep working.
- Do not touch test code, do not touch any code guarded by `#[cfg(locka99_opcua_verif)]`, do not change public signatures.
- Keep it small (typically 1-15 lines).

Then write a DEMONSTRATION: a Rust test (put it in a new file lib/src/seed_demo.rs wired in with `#[cfg(test)] mod seed_demo;` at the end of lib/src/lib.rs; it may use crate-private APIs) that FAILS with your change applied and PASSES on the unchanged tree. Verify both directions yourself (use `git stash`/`git diff`/`git apply` inside the worktree to toggle your change; run `cargo test --offline -p opcua --lib seed_demo`).

Deliverables, all inside {wt}/seed/ (create the directory):
- patch.diff : `git diff` of ONLY the breaking change to non-test source (must apply with `git apply` to the unchanged tree; must not include seed_demo.rs or the lib.rs wiring line).
- demo.diff : a diff that adds lib/src/seed_demo.rs and the wiring line in lib/src/lib.rs (applies to the unchanged tree independently of patch.diff).
- meta.json : {{"property": "{pid}", "summary": "<one sentence: what the change does>", "needs": "<what specific input/sequence/interleaving/configuration is needed for it to manifest>", "files": [...], "ran": ["<commands you ran and their outcome>"]}}

Leave the worktree with NO uncommitted changes other than the seed/ directory when you finish (git checkout -- . ; remove seed_demo.rs), and do not commit anything. Finish with a short report: the summary, what is needed to manifest, and confirmation of the three checks (existing tests pass with the change, demo fails with the change, demo passes without). If after a serious attempt you cannot find a change that keeps the existing tests green, say so and explain what you tried.""")

#!/bin/bash
# Runs the thorough tier of every registered check from a private copy of the harness binary (so that rebuilding the harness or
# experimenting in /repo meanwhile does not disturb it), several checks at a time. Logs: /verif/target/thorough/<id>.log
# Usage: tools/run_thorough.sh [lanes] [ids...]
LANES=${1:-6}; shift
cd /verif
./check --setup >/dev/null || exit 2
mkdir -p target/thorough
cp target/debug/opcua-verif target/thorough/opcua-verif
IDS=${@:-$(jq -r '.checks[].property_id' MANIFEST.json)}
printf '%s\n' $IDS | xargs -P $LANES -I{} sh -c 'cd /verif; start=$(date +%s); VERIF_SEED=${VERIF_SEED:-7} timeout 7200 target/thorough/opcua-verif {} thorough > target/thorough/{}.log 2>&1; echo "{} exit=$? $(( $(date +%s) - start ))s $(grep -E " -> " target/thorough/{}.log | tail -1 | cut -c1-150)"'

#!/bin/bash
# Runs every registered check (quick, or $1) on the current /repo tree and lists anything that is not a clean pass.
# The evidence files are rewritten by the runs; commit them afterwards.
TIER=${1:-quick}
cd /verif
bad=0
for id in $(jq -r '.checks[].property_id' MANIFEST.json); do
  out=$(./check $id $TIER 2>&1); code=$?
  line=$(echo "$out" | grep -E " -> (ok|VIOLATION)" | tail -1)
  echo "$id exit=$code ${line:0:160}"
  if [ $code -ne 0 ] || echo "$out" | grep -q "^VIOLATION"; then bad=1; echo "$out" | tail -5; fi
  python3 - "$id" <<'PY'
import json,sys
e=json.load(open(f'/verif/evidence/{sys.argv[1]}.json'))
c=e['coverage']
if c['evaluations']<1 or c['distinct_nontrivial']<2: print('   EVIDENCE-WEAK', c['evaluations'], c['distinct_nontrivial'])
PY
done
exit $bad

#!/usr/bin/env python3
"""Keeps the 'commit' hash of every fixed entry of known_findings.json in step with /repo's history
(hashes change when a fix commit is amended); entries are matched by 'commit_subject'."""
import json, subprocess
log = subprocess.run(['git', '-C', '/repo', 'log', '--format=%h %s'], capture_output=True, text=True).stdout.splitlines()
kf = json.load(open('/verif/known_findings.json'))
for f in kf['findings']:
    if f.get('status') != 'fixed':
        continue
    subj = f.get('commit_subject')
    if not subj:
        old = f.get('commit', '')
        m = [l for l in log if l.startswith(old + ' ')] if old else []
        if m:
            f['commit_subject'] = m[0].split(' ', 1)[1]
            subj = f['commit_subject']
    m = [l for l in log if subj and l.split(' ', 1)[1] == subj]
    if len(m) != 1:
        print('WARNING: cannot resolve commit for', f['property'], f['sig'], subj)
        continue
    f['commit'] = m[0].split()[0]
json.dump(kf, open('/verif/known_findings.json', 'w'), indent=1)
print('ok', len(kf['findings']))

#!/usr/bin/env python3
"""finish_seed.py <seed-name> <worktree> <detected-by: comma list or 'none'> [note]
Records what was run against a seeded change in /verif/seeded/<name>/meta.json, trims the logs and removes the scratch worktree."""
import json, sys, subprocess, re, os
name, wt, caught = sys.argv[1], sys.argv[2], sys.argv[3]
note = sys.argv[4] if len(sys.argv) > 4 else ''
d = f'/verif/seeded/{name}'
meta = json.load(open(f'{d}/meta.json'))
def trim(p):
    if not os.path.exists(p): return ''
    lines = [l for l in open(p, errors='replace').read().splitlines() if re.match(r'^(==|--|test seed_demo|test result|part |VIOLATION|C\d\d |minimal case|KNOWN|CONFIRM|exit=)', l)]
    open(p, 'w').write('\n'.join(l[:400] for l in lines) + '\n')
    return '\n'.join(lines)
c = trim(f'{d}/confirm.log'); k = trim(f'{d}/checks.log')
meta['confirmed'] = {
    'demo_passes_without_change': bool(re.search(r'-- demo without the change\n(test seed_demo.*\n)*test result: ok', c)),
    'demo_fails_with_change': bool(re.search(r'-- demo with the change\n(test seed_demo.*\n)*test result: FAILED', c)),
    'existing_lib_tests_pass_with_change': bool(re.search(r'-- existing lib tests with the change \(demo excluded\)\n(.*\n)*?test result: ok', c)),
    'how': 'tools/try_seed.sh confirm (scratch worktree, cargo test --offline -p opcua --lib) and tools/try_seed.sh check (patch applied to /repo, ./check <id> quick, reverted)',
}
meta['detected_by'] = [] if caught == 'none' else caught.split(',')
if note: meta['note'] = note
json.dump(meta, open(f'{d}/meta.json', 'w'), indent=1)
print(name, {k: v for k, v in meta["confirmed"].items() if k != "how"}, meta["detected_by"])
if os.path.exists(wt):
    subprocess.run(['git', '-C', '/repo', 'worktree', 'remove', '--force', wt])

#!/bin/bash
# Confirms a seeded change delivered by a sub-agent and runs the registered checks against it.
# Usage: tools/try_seed.sh <confirm|check|all> <worktree> <seed-name> <Cxx> [more Cxx...]
# 1. in the scratch worktree: existing lib tests pass with the patch, demo passes without and fails with it
# 2. apply to /repo, run ./check <Cxx> quick for each listed property, undo
# Results go to /verif/seeded/<seed-name>/ (patch.diff, demo.diff, meta.json, confirm.log, checks.log)
MODE=$1; WT=$2; NAME=$3; shift 3   # MODE = confirm | check | all
OUT=/verif/seeded/$NAME
mkdir -p $OUT
cp $WT/seed/patch.diff $WT/seed/demo.diff $WT/seed/meta.json $OUT/ 2>/dev/null
export CARGO_NET_OFFLINE=true
unset RUSTFLAGS
if [ "$MODE" != check ]; then
cd $WT || exit 2
git checkout -q -- . ; rm -f lib/src/seed_demo.rs
{
echo "== confirm in scratch worktree $WT"
git apply seed/demo.diff || { echo "CONFIRM-FAIL demo.diff does not apply"; exit 3; }
echo "-- demo without the change"
cargo test --offline -p opcua --lib seed_demo 2>&1 | grep -E "^test seed_demo|^test result" | head -20
git apply seed/patch.diff || { echo "CONFIRM-FAIL patch.diff does not apply"; exit 3; }
echo "-- demo with the change"
cargo test --offline -p opcua --lib seed_demo 2>&1 | grep -E "^test seed_demo|^test result" | head -20
echo "-- existing lib tests with the change (demo excluded)"
cargo test --offline -p opcua --lib -- --skip seed_demo 2>&1 | grep -E "\.\.\. FAILED|^test result" | head -20
} > $OUT/confirm.log 2>&1
git checkout -q -- . ; rm -f lib/src/seed_demo.rs
fi
if [ "$MODE" = confirm ]; then cat $OUT/confirm.log; exit 0; fi
cd /verif
{
for id in "$@"; do
  git -C /repo apply $OUT/patch.diff || { echo "patch does not apply to /repo"; break; }
  echo "== ./check $id quick with the change applied"
  # the evidence file of the unchanged tree must survive the experiment
  cp evidence/$id.json /verif/target/evidence.$id.keep 2>/dev/null
  timeout 1800 ./check $id quick 2>&1 | tail -6
  echo "exit=$?"
  cp /verif/target/evidence.$id.keep evidence/$id.json 2>/dev/null
  git -C /repo checkout -- .
done
} > $OUT/checks.log 2>&1
git -C /repo checkout -- .
cat $OUT/checks.log

#!/bin/bash
# Runs the repository's own test suite with the verification guard OFF and compares the result with
# the 370 stable tests of /root/.vp/BASELINE.json. Usage: tools/run_baseline.sh [logfile]
LOG=${1:-/verif/target/baseline.log}
mkdir -p /verif/target
cd /repo || exit 2
unset RUSTFLAGS
CARGO_NET_OFFLINE=true cargo test --workspace --no-fail-fast --offline -- --test-threads 8 >"$LOG" 2>&1
python3 - "$LOG" <<'PY'
import json,re,sys
log=open(sys.argv[1]).read()
base=json.load(open('/root/.vp/BASELINE.json'))
ok=set(); fail=set()
# log lines of other threads can be interleaved after "test NAME ... ", so the verdict is taken from the
# "failures:" lists: a test that started and is not listed there (and not marked FAILED/ignored) passed
started=set(m.group(1) for m in re.finditer(r'^test (\S+) \.\.\. ', log, re.M))
for m in re.finditer(r'^test (\S+) \.\.\. (FAILED|ignored)', log, re.M):
    fail.add(m.group(1))
for m in re.finditer(r'^failures:\n((?:    \S+\n)+)', log, re.M):
    for l in m.group(1).splitlines():
        fail.add(l.strip())
for m in re.finditer(r'^---- (\S+) stdout ----', log, re.M):
    fail.add(m.group(1))
ok=started-fail
missing=[]
for t in base['stable_pass']:
    name=t.split('::',1)[1]
    name=name.replace('bin/opcua-integration::','')
    if name not in ok:
        missing.append(t)
print('tests ok:',len(ok),'failed:',len(fail))
print('stable baseline tests not passing:',len(missing))
for t in missing: print('  ',t)
sys.exit(1 if missing else 0)
PY

#!/bin/bash
# Runs the repository's own test suite with the verification guard OFF and compares the result with
# the 370 stable tests of /root/.vp/BASELINE.json. Usage: tools/run_baseline.sh [logfile]
LOG=${1:-/verif/target/baseline.log}
mkdir -p /verif/target
cd /repo || exit 2
unset RUSTFLAGS
CARGO_NET_OFFLINE=true cargo test --workspace --no-fail-fast --offline -- --test-threads 8 >"$LOG" 2>&1
python3 - "$LOG" <<'PY'
import json,re,sys
log=open(sys.argv[1]).read()
base=json.load(open('/root/.vp/BASELINE.json'))
ok=set(); fail=set()
for m in re.finditer(r'^test (\S+) \.\.\. (ok|FAILED|ignored)', log, re.M):
    (ok if m.group(2)=='ok' else fail).add(m.group(1))
missing=[]
for t in base['stable_pass']:
    name=t.split('::',1)[1]
    name=name.replace('bin/opcua-integration::','')
    if name not in ok:
        missing.append(t)
print('tests ok:',len(ok),'failed:',len(fail))
print('stable baseline tests not passing:',len(missing))
for t in missing: print('  ',t)
sys.exit(1 if missing else 0)
PY

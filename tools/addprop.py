#!/usr/bin/env python3
import re,sys
p='/verif/harness/src/props/mod.rs'
s=open(p).read()
for c in sys.argv[1:]:
    if f'pub mod {c};' in s: continue
    mods=sorted(set(re.findall(r'pub mod (c\d\d);',s))|{c})
    s=re.sub(r'(pub mod c\d\d;\n)+', ''.join(f'pub mod {m};\n' for m in mods), s)
    s=re.sub(r'vec!\[.*\]', 'vec!['+', '.join(f'{m}::def()' for m in mods)+']', s)
open(p,'w').write(s)

#!/usr/bin/env python3
"""Regenerates /verif/MANIFEST.json from the list of properties the harness implements
(harness/src/props/mod.rs) and the per-property table below."""
import json, re, subprocess, sys, os
os.chdir('/verif')
props = [json.loads(l) for l in open('properties.jsonl')]
mod = open('harness/src/props/mod.rs').read()
claimed = sorted(set(re.findall(r'\b(c\d\d)::def\(\)', mod)))
claimed = [c.upper() for c in claimed]
T = json.load(open('tools/manifest_table.json'))
baseline = json.load(open('/root/.vp/BASELINE.json'))['cmd']
checks = []
for p in props:
    pid = p['id']
    if pid not in claimed:
        continue
    t = dict(T.get(pid, {}))
    try:
        ev = json.load(open(f'evidence/{pid}.json'))
        rule = ev['coverage'].get('rule', '')
        t.setdefault('text', 'Exploration only: no counter-example among the generated cases (' + rule[:600] + ('…' if len(rule) > 600 else '') + '). Not a proof; absence is never established.')
        t.setdefault('note', 'Trusted: the harness oracle and generators (DESIGN.md section 5 and the rule/assumptions fields of the evidence file), proptest, rustc. Executed paths and bounded sizes only. Assumptions: ' + '; '.join(ev.get('assumptions', []))[:700])
    except Exception:
        pass
    checks.append({
        'property_id': pid,
        'quick_cmd': f'./check {pid} quick',
        'thorough_cmd': f'./check {pid} thorough',
        'evidence_file': f'/verif/evidence/{pid}.json',
        'replay_cmd_template': './check --replay {path}',
        'engine': 'opcua-verif',
        'level_claimed': {
            'category': 'exploration',
            'text': t.get('text', 'Generated-input search against an executable oracle; no counter-example within the stated bounds. Not a proof.'),
            'design_ref': f'DESIGN.md section 5, {pid}',
        },
        'level_note': t.get('note', 'Trusted: the harness oracle and generators (DESIGN.md section 5), proptest, rustc. Bounded sizes; executed paths only.'),
        'technique': t.get('technique', 'property-based testing (proptest) against an explicit oracle'),
    })
na = [{'property_id': p['id'], 'reason': T.get(p['id'], {}).get('na_reason', 'no check is registered for this property in this revision of /verif (planned in DESIGN.md section 5; not yet built), so nothing is claimed')} for p in props if p['id'] not in claimed]
hooks_commits = [l.split()[0] for l in subprocess.run(['git', '-C', '/repo', 'log', '--format=%h %s'], capture_output=True, text=True).stdout.splitlines() if ' verif hook' in l or l.split(' ',1)[1].startswith('verif:')]
m = {
    'version': 1,
    'setup_cmd': './check --setup',
    'hooks': {
        'guard': 'cfg(locka99_opcua_verif)',
        'enable': 'RUSTFLAGS="--cfg locka99_opcua_verif" (set by ./check for every build of the harness, which depends on opcua by path = /repo/lib)',
        'baseline_off_cmd': baseline,
        'source_commits': hooks_commits,
        'add_only': True,
    },
    'engines': [{
        'name': 'opcua-verif',
        'path': '/verif/harness',
        'serves_properties': claimed,
        'kind_free_text': 'Rust binary using proptest 1.11 as a library (TestRunner, fixed seed from VERIF_SEED, no failure persistence); one module per property with generator, oracle, classification; worker child process for abort isolation; shrunk failures are written as JSON replay files',
    }, {
        'name': 'verif-fuzz',
        'path': '/verif/fuzz',
        'serves_properties': [c for c in ['C01', 'C02', 'C04', 'C05', 'C09'] if c in claimed],
        'kind_free_text': 'cargo-fuzz crate (libFuzzer, nightly, ASan), one binary verif_fuzz with five targets selected by VERIF_FUZZ_TARGET; the oracle is inside each target; built from /repo and driven by the opcua-verif engine as an extra part of the thorough tier (fixed -runs, seed from VERIF_SEED, crash input stored in the JSON replay file)',
    }],
    'checks': checks,
    'not_applicable': na,
    'notes': 'See DESIGN.md. known_findings.json lists genuine defects (fixed ones with the fix commit; open ones with the exact signature tolerated). findings/<id>/*.json are shrunk witnesses replayed first by every check. Exit codes: 0 held, 1 violation, 2 inconclusive (build failure, watchdog, harness error).',
}
json.dump(m, open('MANIFEST.json', 'w'), indent=1)
print('claimed', len(checks), 'not claimed', len(na))

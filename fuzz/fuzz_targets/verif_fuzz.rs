#![no_main]
//! One binary for all targets (one link instead of five): VERIF_FUZZ_TARGET selects the entry function.
use libfuzzer_sys::fuzz_target;
use std::sync::OnceLock;

static TARGET: OnceLock<fn(&[u8])> = OnceLock::new();

fuzz_target!(|data: &[u8]| {
    let f = TARGET.get_or_init(|| {
        if let Ok(dir) = std::env::var("VERIF_FUZZ_MKCORPUS") {
            std::fs::create_dir_all(&dir).unwrap();
            for (i, s) in opcua_verif_fuzz::c09_seeds().into_iter().enumerate() {
                std::fs::write(format!("{}/seed-{:02}", dir, i), s).unwrap();
            }
            std::process::exit(0);
        }
        match std::env::var("VERIF_FUZZ_TARGET").as_deref() {
            Ok("c01_roundtrip") => opcua_verif_fuzz::c01_roundtrip,
            Ok("c02_decode") => opcua_verif_fuzz::c02_decode,
            Ok("c04_ids") => opcua_verif_fuzz::c04_ids,
            Ok("c05_paths") => opcua_verif_fuzz::c05_paths,
            Ok("c09_chunk_recv") => opcua_verif_fuzz::c09_chunk_recv,
            other => {
                eprintln!("VERIF_FUZZ_TARGET must name a target, got {:?}", other);
                std::process::exit(2);
            }
        }
    });
    f(data);
});

//! libFuzzer targets for the byte-level properties. Every target puts the semantic oracle inside the target (a panic is the
//! failure signal), decodes a selector prefix into the structured arguments, keeps no state between iterations, and counts what
//! it saw (written to $VERIF_FUZZ_STATS for the evidence file).
use opcua::core::comms::chunker::Chunker;
use opcua::core::comms::secure_channel::{Role, SecureChannel};
use opcua::core::comms::tcp_types::{AcknowledgeMessage, ErrorMessage, HelloMessage};
use opcua::core::supported_message::SupportedMessage;
use opcua::crypto::{CertificateStore, PrivateKey, SecurityPolicy, X509};
use opcua::sync::RwLock;
use opcua::types::*;
use std::io::Cursor;
use std::str::FromStr;
use std::sync::atomic::{AtomicU64, Ordering};
use std::sync::{Arc, Mutex, OnceLock};

include!(concat!(env!("OUT_DIR"), "/object_ids.rs"));

// ---------------------------------------------------------------------------------------------
// counters

static EXEC: AtomicU64 = AtomicU64::new(0);
static NONTRIVIAL: AtomicU64 = AtomicU64::new(0);
static CLASSES: OnceLock<Mutex<std::collections::BTreeMap<&'static str, u64>>> = OnceLock::new();
/// fixed-size open-addressing table of input hashes (allocated once, below the fuzzer's malloc limit): a lower bound of the
/// number of distinct non-trivial inputs
static DISTINCT: OnceLock<Mutex<(Vec<u64>, u64)>> = OnceLock::new();
const TABLE: usize = 1 << 20;

fn fnv(data: &[u8]) -> u64 {
    let mut h: u64 = 0xcbf29ce484222325;
    for b in data {
        h ^= *b as u64;
        h = h.wrapping_mul(0x100000001b3);
    }
    h
}

fn class(name: &'static str) {
    let m = CLASSES.get_or_init(|| Mutex::new(Default::default()));
    *m.lock().unwrap().entry(name).or_insert(0) += 1;
}

fn nontrivial(data: &[u8]) {
    NONTRIVIAL.fetch_add(1, Ordering::Relaxed);
    let d = DISTINCT.get_or_init(|| Mutex::new((vec![0u64; TABLE], 0)));
    let mut d = d.lock().unwrap();
    let h = fnv(data) | 1;
    let mut i = (h >> 7) as usize & (TABLE - 1);
    for _ in 0..16 {
        if d.0[i] == h {
            return;
        }
        if d.0[i] == 0 {
            d.0[i] = h;
            d.1 += 1;
            return;
        }
        i = (i + 1) & (TABLE - 1);
    }
}

extern "C" fn dump_at_exit() {
    dump();
}

fn dump() {
    let Some(path) = std::env::var_os("VERIF_FUZZ_STATS") else { return };
    let classes = CLASSES.get().map(|m| m.lock().unwrap().clone()).unwrap_or_default();
    let distinct = DISTINCT.get().map(|d| d.lock().unwrap().1).unwrap_or(0);
    let mut s = String::from("{");
    s.push_str(&format!("\"executions\":{},\"nontrivial\":{},\"distinct_nontrivial\":{},\"classes\":{{", EXEC.load(Ordering::Relaxed), NONTRIVIAL.load(Ordering::Relaxed), distinct));
    let mut first = true;
    for (k, v) in classes {
        if !first {
            s.push(',');
        }
        first = false;
        s.push_str(&format!("\"{}\":{}", k, v));
    }
    s.push_str("}}");
    let _ = std::fs::write(path, s);
}

fn begin() {
    let n = EXEC.fetch_add(1, Ordering::Relaxed);
    if n == 0 {
        unsafe {
            libc::atexit(dump_at_exit);
        }
        // quiet: the crate logs through `log`, no logger is installed
    }
    if n > 0 && n & 0xFFFF == 0 {
        dump();
    }
}

// ---------------------------------------------------------------------------------------------
// decoding (C02 totality, C01 round trip of whatever decodes)

fn options(preset: u8) -> DecodingOptions {
    match preset % 3 {
        0 => DecodingOptions::default(),
        1 => DecodingOptions { max_message_size: 256, max_chunk_count: 2, max_string_length: 8, max_byte_string_length: 8, max_array_length: 4, ..DecodingOptions::default() },
        _ => DecodingOptions { max_string_length: 64, max_byte_string_length: 64, max_array_length: 16, ..DecodingOptions::default() },
    }
}

/// decodes `bytes` as the selected type; on success returns the canonical re-encoding
fn decode_as(kind: u8, bytes: &[u8], opts: &DecodingOptions, reencode: bool) -> Option<(usize, Result<Vec<u8>, StatusCode>)> {
    fn go<T: BinaryEncoder<T>>(bytes: &[u8], opts: &DecodingOptions, reencode: bool) -> Option<(usize, Result<Vec<u8>, StatusCode>)> {
        let mut c = Cursor::new(bytes);
        match T::decode(&mut c, opts) {
            Ok(v) => {
                let consumed = c.position() as usize;
                if !reencode {
                    return Some((consumed, Ok(Vec::new())));
                }
                let mut out = Vec::new();
                let r = v.encode(&mut out);
                match r {
                    Ok(n) => {
                        if n != out.len() || v.byte_len() != out.len() {
                            panic!("C01-byte-len: byte_len {} / encode returned {} / wrote {} bytes for a decoded value", v.byte_len(), n, out.len());
                        }
                        Some((consumed, Ok(out)))
                    }
                    Err(e) => Some((consumed, Err(e))),
                }
            }
            Err(_) => {
                let consumed = c.position() as usize;
                if consumed >= 8 {
                    Some((consumed, Err(StatusCode::BadDecodingError)))
                } else {
                    None
                }
            }
        }
    }
    let n_builtin = 14u8;
    match kind {
        0 => go::<Variant>(bytes, opts, reencode),
        1 => go::<DataValue>(bytes, opts, reencode),
        2 => go::<ExtensionObject>(bytes, opts, reencode),
        3 => go::<DiagnosticInfo>(bytes, opts, reencode),
        4 => go::<NodeId>(bytes, opts, reencode),
        5 => go::<ExpandedNodeId>(bytes, opts, reencode),
        6 => go::<QualifiedName>(bytes, opts, reencode),
        7 => go::<LocalizedText>(bytes, opts, reencode),
        8 => go::<UAString>(bytes, opts, reencode),
        9 => go::<ByteString>(bytes, opts, reencode),
        10 => go::<HelloMessage>(bytes, opts, reencode),
        11 => go::<AcknowledgeMessage>(bytes, opts, reencode),
        12 => go::<ErrorMessage>(bytes, opts, reencode),
        13 => {
            // the way Chunker::decode finds the message type: a node id, then the body
            let mut c = Cursor::new(bytes);
            let node_id = NodeId::decode(&mut c, opts).ok()?;
            let object_id = node_id.as_object_id().ok()?;
            message(object_id, &bytes[c.position() as usize..], opts, reencode)
        }
        k => {
            let object_id = OBJECT_IDS[(k - n_builtin) as usize % OBJECT_IDS.len()];
            message(object_id, bytes, opts, reencode)
        }
    }
}

fn message(object_id: ObjectId, bytes: &[u8], opts: &DecodingOptions, reencode: bool) -> Option<(usize, Result<Vec<u8>, StatusCode>)> {
    let mut c = Cursor::new(bytes);
    match SupportedMessage::decode_by_object_id(&mut c, object_id, opts) {
        Ok(m) => {
            let consumed = c.position() as usize;
            if matches!(m, SupportedMessage::Invalid(_)) {
                return None;
            }
            if !reencode {
                return Some((consumed, Ok(Vec::new())));
            }
            let mut out = Vec::new();
            match m.encode(&mut out) {
                Ok(n) => {
                    if n != out.len() || m.byte_len() != out.len() {
                        panic!("C01-byte-len: byte_len {} / encode returned {} / wrote {} bytes for a decoded {:?}", m.byte_len(), n, out.len(), object_id);
                    }
                    Some((consumed, Ok(out)))
                }
                Err(e) => Some((consumed, Err(e))),
            }
        }
        Err(_) => {
            let consumed = c.position() as usize;
            if consumed >= 8 {
                Some((consumed, Err(StatusCode::BadDecodingError)))
            } else {
                None
            }
        }
    }
}

/// C02: any bytes, any type, three option presets: a value or an error (a panic, an abort or an allocation above
/// -malloc_limit_mb is the failure)
pub fn c02_decode(data: &[u8]) {
    begin();
    if data.len() < 2 {
        return;
    }
    let opts = options(data[1]);
    if let Some((_, r)) = decode_as(data[0], &data[2..], &opts, false) {
        nontrivial(data);
        class(if r.is_ok() { "decoded" } else { "rejected_after_8_bytes" });
    }
}

/// C01 on decode-as-generator: whatever decodes is a value; its encoding must decode to a value with the same encoding
pub fn c01_roundtrip(data: &[u8]) {
    begin();
    if data.len() < 2 {
        return;
    }
    let opts = DecodingOptions::default();
    let kind = data[0];
    if (10..=12).contains(&kind) {
        // HEL / ACK / ERR are only ever decoded after the codec has checked the message type in the header; a header of
        // another type is not a value of these types
        return;
    }
    let Some((consumed, Ok(canonical))) = decode_as(kind, &data[1..], &opts, true) else { return };
    nontrivial(data);
    // kind 13 consumed a node id prefix that the re-encoding does not have
    let kind2 = if kind == 13 {
        let mut c = Cursor::new(&data[1..]);
        let node_id = NodeId::decode(&mut c, &opts).unwrap();
        let oid = node_id.as_object_id().unwrap();
        14 + OBJECT_IDS.iter().position(|x| *x == oid).unwrap() as u8
    } else {
        kind
    };
    // decode . encode is a normalisation N (out-of-range DateTimes saturate, StatusCode bits are truncated ...); on the image
    // of the encoder it must be total, consume everything and be idempotent: N(N(c)) == N(c)
    let normalise = |bytes: &[u8], what: &str| -> Vec<u8> {
        match decode_as(kind2, bytes, &opts, true) {
            Some((n, Ok(out))) => {
                if n != bytes.len() {
                    panic!("C01-consumed: decoder consumed {} of the {} bytes the encoder wrote ({}, kind {})", n, bytes.len(), what, kind2);
                }
                out
            }
            Some((_, Err(e))) => panic!("C01-reencoding-fails: the encoding of a decoded value does not decode or re-encode: {} ({}, kind {}, {:02x?})", e, what, kind2, bytes),
            None => {
                if bytes.is_empty() {
                    Vec::new()
                } else {
                    panic!("C01-rejected: the encoding of a decoded value is rejected by the decoder ({}, kind {}, {:02x?})", what, kind2, bytes)
                }
            }
        }
    };
    let c2 = normalise(&canonical, "first re-encoding");
    let c3 = normalise(&c2, "second re-encoding");
    if c3 != c2 {
        panic!("C01-unstable: encode(decode(c)) is not stable (kind {}): {:02x?} then {:02x?}", kind2, c2, c3);
    }
    class(if canonical.len() == consumed && canonical[..] == data[1..1 + consumed] { "canonical_input" } else { "non_canonical_input" });
    if c2 != canonical {
        class("normalised_twice");
    }
}

// ---------------------------------------------------------------------------------------------
// text forms (C04, C05)

pub fn c04_ids(data: &[u8]) {
    begin();
    let Ok(s) = std::str::from_utf8(data) else { return };
    if let Ok(n) = NodeId::from_str(s) {
        nontrivial(data);
        class("node_id_parsed");
        let printed = n.to_string();
        match NodeId::from_str(&printed) {
            Ok(n2) if n2 == n => {}
            other => panic!("C04-node-id-roundtrip: NodeId {:?} parsed from {:?} prints as {:?}, which parses as {:?}", n, s, printed, other),
        }
    }
    if let Ok(n) = ExpandedNodeId::from_str(s) {
        nontrivial(data);
        class("expanded_node_id_parsed");
        let printed = n.to_string();
        match ExpandedNodeId::from_str(&printed) {
            Ok(n2) if n2 == n => {}
            other => panic!("C04-expanded-node-id-roundtrip: ExpandedNodeId {:?} parsed from {:?} prints as {:?}, which parses as {:?}", n, s, printed, other),
        }
    }
}

pub fn c05_paths(data: &[u8]) {
    begin();
    let Ok(s) = std::str::from_utf8(data) else { return };
    let _ = RelativePathElement::from_str(s, &RelativePathElement::default_node_resolver);
    if let Ok(p) = RelativePath::from_str(s, &RelativePathElement::default_node_resolver) {
        if p.elements.as_ref().map(|e| e.is_empty()).unwrap_or(true) {
            return;
        }
        nontrivial(data);
        class("path_parsed");
        let printed = String::from(&p);
        // the parser documents that it rejects "unusually long" segments (256 bytes); the printer adds the namespace prefix,
        // so a maximal name has a text form that is over the limit: outside the round-trip domain
        if p.elements.iter().flatten().any(|e| String::from(e).len() + 1 > 256) {
            class("printed_segment_over_the_parser_limit");
            return;
        }
        match RelativePath::from_str(&printed, &RelativePathElement::default_node_resolver) {
            Ok(p2) if p2 == p => {}
            other => panic!("C05-roundtrip: path {:?} parsed from {:?} prints as {:?}, which parses as {:?}", p, s, printed, other),
        }
    }
}

// ---------------------------------------------------------------------------------------------
// secure channel receive path (C09)

struct Fixtures {
    cert_a: X509,
    cert_b: X509,
    key_a_pem: Vec<u8>,
    key_b_pem: Vec<u8>,
    store: Arc<RwLock<CertificateStore>>,
}

const FIXTURE_DIR: &str = "/verif/fixtures";

fn fixtures() -> &'static Fixtures {
    static F: OnceLock<Fixtures> = OnceLock::new();
    F.get_or_init(|| {
        let rd = |n: &str| std::fs::read(format!("{}/{}", FIXTURE_DIR, n)).unwrap_or_else(|e| panic!("fixture {}: {}", n, e));
        let dir = std::env::temp_dir().join(format!("opcua-verif-fuzz-pki-{}", std::process::id()));
        let _ = std::fs::create_dir_all(&dir);
        Fixtures {
            cert_a: X509::from_der(&rd("rsa2048a.der")).expect("cert a"),
            cert_b: X509::from_der(&rd("rsa2048b.der")).expect("cert b"),
            key_a_pem: rd("rsa2048a.pem"),
            key_b_pem: rd("rsa2048b.pem"),
            store: Arc::new(RwLock::new(CertificateStore::new(&dir))),
        }
    })
}

const POLICIES: [SecurityPolicy; 5] = [SecurityPolicy::Basic128Rsa15, SecurityPolicy::Basic256, SecurityPolicy::Basic256Sha256, SecurityPolicy::Aes128Sha256RsaOaep, SecurityPolicy::Aes256Sha256RsaPss];

fn policy_mode(i: usize) -> (SecurityPolicy, MessageSecurityMode) {
    if i % 11 == 0 {
        (SecurityPolicy::None, MessageSecurityMode::None)
    } else {
        let j = (i % 11) - 1;
        (POLICIES[j / 2], if j % 2 == 0 { MessageSecurityMode::Sign } else { MessageSecurityMode::SignAndEncrypt })
    }
}

fn nonce(policy: SecurityPolicy, seed: u8) -> Vec<u8> {
    (0..policy.secure_channel_nonce_length()).map(|i| (i as u8).wrapping_mul(31).wrapping_add(seed)).collect()
}

/// receiver (and, for the seed corpus, sender) in the state two selector bytes describe
pub fn channel(role_is_server: bool, pair: usize, flags: u8) -> SecureChannel {
    let f = fixtures();
    let (policy, mode) = policy_mode(pair);
    let mut ch = SecureChannel::new(f.store.clone(), if role_is_server { Role::Server } else { Role::Client }, DecodingOptions::default());
    ch.set_security_policy(policy);
    ch.set_security_mode(mode);
    ch.set_secure_channel_id(7);
    if policy != SecurityPolicy::None {
        let (own_cert, own_key, their_cert) = if role_is_server { (&f.cert_b, &f.key_b_pem, &f.cert_a) } else { (&f.cert_a, &f.key_a_pem, &f.cert_b) };
        if flags & 1 == 0 {
            ch.set_cert(Some(own_cert.clone()));
            ch.set_private_key(PrivateKey::from_pem(own_key).ok());
        }
        if flags & 2 == 0 {
            ch.set_remote_cert(Some(their_cert.clone()));
        }
        if flags & 4 == 0 {
            let (cn, sn) = (nonce(policy, 11), nonce(policy, 99));
            if role_is_server {
                ch.set_local_nonce(&sn);
                ch.set_remote_nonce(&cn);
            } else {
                ch.set_local_nonce(&cn);
                ch.set_remote_nonce(&sn);
            }
            ch.derive_keys();
        }
    }
    ch
}

pub fn c09_chunk_recv(data: &[u8]) {
    begin();
    if data.len() < 2 {
        return;
    }
    let role_is_server = data[0] & 1 == 0;
    let pair = (data[0] >> 1) as usize % 11;
    let mut ch = channel(role_is_server, pair, data[1] & 7);
    let bytes = &data[2..];
    match ch.verify_and_remove_security(bytes) {
        Ok(chunk) => {
            nontrivial(data);
            class("verified");
            let _ = chunk.chunk_info(&ch);
            let chunks = [chunk];
            if Chunker::validate_chunks(1, &ch, &chunks).is_ok() {
                class("validated");
            }
            if Chunker::decode(&chunks, &ch, None).is_ok() {
                class("decoded");
            }
        }
        Err(_) => {
            if bytes.len() >= 12 {
                class("rejected_with_header");
            }
        }
    }
}

/// seed corpus: one valid secured chunk per (role, pair) of a small message, in the target's input format
pub fn c09_seeds() -> Vec<Vec<u8>> {
    let mut out = Vec::new();
    for pair in 0..11usize {
        for receiver_is_server in [true, false] {
            let sender = channel(!receiver_is_server, pair, 0);
            let msg: SupportedMessage = if receiver_is_server {
                opcua::types::GetEndpointsRequest { request_header: RequestHeader::dummy(), endpoint_url: UAString::from("opc.tcp://x/"), locale_ids: None, profile_uris: None }.into()
            } else {
                opcua::types::ServiceFault::new(&RequestHeader::dummy(), StatusCode::BadNothingToDo).into()
            };
            let Ok(chunks) = Chunker::encode(1, 1, 0, 0, &sender, &msg) else { continue };
            let mut buf = vec![0u8; chunks[0].data.len() + 4096];
            let Ok(n) = sender.apply_security(&chunks[0], &mut buf) else { continue };
            buf.truncate(n);
            let mut seed = vec![((pair as u8) << 1) | if receiver_is_server { 0 } else { 1 }, 0];
            seed.extend_from_slice(&buf);
            out.push(seed);
        }
    }
    out
}

// Collects the object ids that SupportedMessage::decode_by_object_id understands from the crate under test.
use std::io::Write;
fn main() {
    let src = "/repo/lib/src/core/supported_message.rs";
    println!("cargo:rerun-if-changed={}", src);
    let text = std::fs::read_to_string(src).expect("supported_message.rs");
    let start = text.find("pub fn decode_by_object_id").expect("decode_by_object_id");
    let body = &text[start..];
    let mut ids: Vec<String> = Vec::new();
    for piece in body.split("ObjectId::").skip(1) {
        let name: String = piece.chars().take_while(|c| c.is_alphanumeric() || *c == '_').collect();
        let rest = piece[name.len()..].trim_start();
        if name.ends_with("_Encoding_DefaultBinary") && rest.starts_with("=>") && !ids.contains(&name) {
            ids.push(name);
        }
    }
    if ids.len() < 50 {
        panic!("generator out of date: only {} object ids found", ids.len());
    }
    let out = std::path::Path::new(&std::env::var("OUT_DIR").unwrap()).join("object_ids.rs");
    let mut f = std::fs::File::create(out).unwrap();
    writeln!(f, "pub const OBJECT_IDS: &[opcua::types::ObjectId] = &[").unwrap();
    for i in &ids {
        writeln!(f, "    opcua::types::ObjectId::{},", i).unwrap();
    }
    writeln!(f, "];").unwrap();
}

use std::process::Command;
fn main() {
    let out = std::env::var("OUT_DIR").unwrap();
    let src = "/repo/lib/src/types/service_types";
    let sm = "/repo/lib/src/core/supported_message.rs";
    println!("cargo:rerun-if-changed={}", src);
    println!("cargo:rerun-if-changed={}", sm);
    println!("cargo:rerun-if-changed=gen/gen_fillers.py");
    println!("cargo:rerun-if-changed=build.rs");
    let st = Command::new("python3")
        .args(["gen/gen_fillers.py", src, sm, &format!("{}/service_fillers.rs", out)])
        .status()
        .expect("python3 is required to generate the service type fillers");
    if !st.success() {
        panic!("gen_fillers.py failed: the generator is out of date with respect to /repo/lib/src/types/service_types");
    }
}

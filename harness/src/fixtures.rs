//! Crypto fixtures and scratch directories (filled in by later commits).
#![allow(dead_code)]

//! Crypto fixtures (committed under /verif/fixtures, generated once by `opcua-verif --make-fixtures`),
//! scratch directories and channel construction helpers.
#![allow(dead_code)]
use opcua::core::comms::secure_channel::{Role, SecureChannel};
use opcua::crypto::{CertificateStore, PrivateKey, SecurityPolicy, X509Data, X509};
use opcua::sync::RwLock;
use opcua::types::{DecodingOptions, MessageSecurityMode};
use std::path::PathBuf;
use std::sync::Arc;

pub const FIXTURE_DIR: &str = "/verif/fixtures";
pub const APP_URI: &str = "urn:verif:app";
pub const HOSTNAME: &str = "verifhost";

/// names: rsa1024a, rsa1024b, rsa2048a, rsa2048b, rsa4096a, rsa4096b (+ time-invalid certs for C18)
pub const KEY_NAMES: &[&str] = &["rsa1024a", "rsa1024b", "rsa2048a", "rsa2048b", "rsa4096a", "rsa4096b"];

pub fn key_bits(name: &str) -> u32 {
    name[3..7].parse().unwrap()
}

pub fn scratch_dir(name: &str) -> PathBuf {
    let p = PathBuf::from(format!("{}/{}-{}", crate::engine::SCRATCH_DIR, name, std::process::id()));
    let _ = std::fs::create_dir_all(&p);
    p
}

pub fn make_fixtures() {
    std::fs::create_dir_all(FIXTURE_DIR).unwrap();
    for name in KEY_NAMES {
        let pem = format!("{}/{}.pem", FIXTURE_DIR, name);
        if std::path::Path::new(&pem).exists() {
            continue;
        }
        let data = X509Data {
            key_size: key_bits(name),
            common_name: format!("verif {}", name),
            organization: "verif".into(),
            organizational_unit: "verif".into(),
            country: "IE".into(),
            state: "Dublin".into(),
            alt_host_names: vec![APP_URI.to_string(), HOSTNAME.to_string(), "127.0.0.1".to_string()],
            certificate_duration_days: 365 * 40,
        };
        let (cert, key) = X509::cert_and_pkey(&data).expect("cert_and_pkey");
        std::fs::write(&pem, key.private_key_to_pem().unwrap()).unwrap();
        std::fs::write(format!("{}/{}.der", FIXTURE_DIR, name), cert.to_der().unwrap()).unwrap();
        println!("made {}", name);
    }
    // time-invalid certificates over the rsa2048a key, built with the openssl crate directly
    let key = load_key("rsa2048a");
    for (name, from, to) in [("expired2048", -800i64, -400i64), ("notyet2048", 365 * 30, 365 * 40)] {
        let path = format!("{}/{}.der", FIXTURE_DIR, name);
        if std::path::Path::new(&path).exists() {
            continue;
        }
        use openssl::asn1::Asn1Time;
        use openssl::x509::extension::SubjectAlternativeName;
        use openssl::x509::{X509Builder, X509NameBuilder};
        let pk = openssl::pkey::PKey::private_key_from_pem(&key.private_key_to_pem().unwrap()).unwrap();
        let mut b = X509Builder::new().unwrap();
        b.set_version(2).unwrap();
        let mut n = X509NameBuilder::new().unwrap();
        n.append_entry_by_text("CN", &format!("verif {}", name)).unwrap();
        let n = n.build();
        b.set_subject_name(&n).unwrap();
        b.set_issuer_name(&n).unwrap();
        let now = chrono::Utc::now().timestamp();
        b.set_not_before(&Asn1Time::from_unix(now + from * 86400).unwrap()).unwrap();
        b.set_not_after(&Asn1Time::from_unix(now + to * 86400).unwrap()).unwrap();
        b.set_pubkey(&pk).unwrap();
        let san = SubjectAlternativeName::new().uri(APP_URI).dns(HOSTNAME).build(&b.x509v3_context(None, None)).unwrap();
        b.append_extension(san).unwrap();
        b.sign(&pk, openssl::hash::MessageDigest::sha256()).unwrap();
        std::fs::write(&path, b.build().to_der().unwrap()).unwrap();
        println!("made {}", name);
    }
}

pub fn load_key(name: &str) -> PrivateKey {
    let pem = std::fs::read(format!("{}/{}.pem", FIXTURE_DIR, name)).unwrap_or_else(|e| crate::engine::harness_error(&format!("fixture {}: {}", name, e)));
    PrivateKey::from_pem(&pem).unwrap_or_else(|_| crate::engine::harness_error("fixture key does not parse"))
}

pub fn load_cert(name: &str) -> X509 {
    let der = std::fs::read(format!("{}/{}.der", FIXTURE_DIR, name)).unwrap_or_else(|e| crate::engine::harness_error(&format!("fixture {}: {}", name, e)));
    X509::from_der(&der).unwrap_or_else(|_| crate::engine::harness_error("fixture cert does not parse"))
}

pub fn cert_store() -> Arc<RwLock<CertificateStore>> {
    Arc::new(RwLock::new(CertificateStore::new(&scratch_dir("pki-empty"))))
}

pub fn plain_channel(role: Role) -> SecureChannel {
    SecureChannel::new(cert_store(), role, DecodingOptions::default())
}

pub const POLICIES: &[SecurityPolicy] = &[
    SecurityPolicy::Basic128Rsa15,
    SecurityPolicy::Basic256,
    SecurityPolicy::Basic256Sha256,
    SecurityPolicy::Aes128Sha256RsaOaep,
    SecurityPolicy::Aes256Sha256RsaPss,
];

/// the 11 valid (policy, mode) pairs, index 0 = None/None
pub fn policy_mode(i: usize) -> (SecurityPolicy, MessageSecurityMode) {
    if i % 11 == 0 {
        (SecurityPolicy::None, MessageSecurityMode::None)
    } else {
        let j = (i % 11) - 1;
        (POLICIES[j / 2], if j % 2 == 0 { MessageSecurityMode::Sign } else { MessageSecurityMode::SignAndEncrypt })
    }
}

/// A connected pair of channels (client, server) with certificates, nonces and derived keys.
pub fn channel_pair(policy: SecurityPolicy, mode: MessageSecurityMode, client_key: &str, server_key: &str, client_nonce: &[u8], server_nonce: &[u8]) -> (SecureChannel, SecureChannel) {
    let mut c = plain_channel(Role::Client);
    let mut s = plain_channel(Role::Server);
    for ch in [&mut c, &mut s] {
        ch.set_security_policy(policy);
        ch.set_security_mode(mode);
        ch.set_secure_channel_id(7);
    }
    if policy != SecurityPolicy::None {
        c.set_cert(Some(load_cert(client_key)));
        c.set_private_key(Some(load_key(client_key)));
        c.set_remote_cert(Some(load_cert(server_key)));
        s.set_cert(Some(load_cert(server_key)));
        s.set_private_key(Some(load_key(server_key)));
        s.set_remote_cert(Some(load_cert(client_key)));
        c.set_local_nonce(client_nonce);
        c.set_remote_nonce(server_nonce);
        s.set_local_nonce(server_nonce);
        s.set_remote_nonce(client_nonce);
        c.derive_keys();
        s.derive_keys();
    }
    (c, s)
}

pub fn nonce_for(policy: SecurityPolicy, seed: u8) -> Vec<u8> {
    let n = policy.secure_channel_nonce_length();
    (0..n).map(|i| (i as u8).wrapping_mul(31).wrapping_add(seed)).collect()
}

/// A loopback port for a server of this process. Not from the ephemeral range (outgoing connections of other processes take
/// ports from there between the probe and the server's own bind), and spread by process id so that checks running side by side
/// do not pick the same one.
pub fn free_port() -> u16 {
    use std::sync::atomic::{AtomicU32, Ordering};
    static NEXT: AtomicU32 = AtomicU32::new(0);
    for _ in 0..200 {
        let k = NEXT.fetch_add(1, Ordering::Relaxed);
        let port = 12000 + ((std::process::id().wrapping_mul(37).wrapping_add(k.wrapping_mul(101))) % 18000) as u16;
        if std::net::TcpListener::bind(("127.0.0.1", port)).is_ok() {
            return port;
        }
    }
    crate::engine::harness_error("no free loopback port found")
}

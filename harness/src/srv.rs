//! Server fixture: a real `Server` (own certificate = fixture rsa2048b), transports created per case,
//! and a client-side channel used to build the chunks a peer would send.
#![allow(dead_code)]
use crate::fixtures;
use opcua::core::comms::chunker::Chunker;
use opcua::core::comms::message_chunk::{MessageChunk, MessageChunkType, MessageIsFinalType};
use opcua::core::comms::secure_channel::{Role, SecureChannel};
use opcua::core::comms::tcp_types::HelloMessage;
use opcua::core::supported_message::SupportedMessage;
use opcua::server::comms::tcp_transport::TcpTransport;
use opcua::server::prelude::*;
use std::path::PathBuf;

pub const ENDPOINT_URL: &str = "opc.tcp://127.0.0.1:4855/";
pub const SERVER_KEY: &str = "rsa2048b";
pub const USER_A: (&str, &str) = ("userA", "passA€");
pub const USER_B: (&str, &str) = ("userB", "");

pub struct SrvOpts {
    pub clients_can_modify_address_space: bool,
    pub max_message_size: usize,
    pub max_chunk_count: usize,
    pub max_subscriptions: usize,
    pub port: u16,
}

impl Default for SrvOpts {
    fn default() -> Self {
        let d = opcua::types::DecodingOptions::default();
        SrvOpts { clients_can_modify_address_space: false, max_message_size: d.max_message_size, max_chunk_count: d.max_chunk_count, max_subscriptions: 100, port: 4855 }
    }
}

pub fn pki_dir() -> PathBuf {
    let pki = fixtures::scratch_dir("server-pki");
    for d in ["own", "private", "trusted", "rejected"] {
        let _ = std::fs::create_dir_all(pki.join(d));
    }
    let der = std::fs::read(format!("{}/{}.der", fixtures::FIXTURE_DIR, SERVER_KEY)).unwrap();
    let pem = std::fs::read(format!("{}/{}.pem", fixtures::FIXTURE_DIR, SERVER_KEY)).unwrap();
    let _ = std::fs::write(pki.join("own/cert.der"), der);
    let _ = std::fs::write(pki.join("private/private.pem"), pem);
    pki
}

pub fn config(opts: &SrvOpts) -> ServerConfig {
    let users: Vec<String> = vec!["user_a".into(), "user_b".into(), ANONYMOUS_USER_TOKEN_ID.into()];
    let path = "/";
    let mut b = ServerBuilder::new()
        .application_name("verif")
        .application_uri(fixtures::APP_URI)
        .product_uri("urn:verif:product")
        .create_sample_keypair(false)
        .certificate_path("own/cert.der")
        .private_key_path("private/private.pem")
        .pki_dir(pki_dir())
        .host_and_port("127.0.0.1", opts.port)
        .discovery_server_url(None)
        .trust_client_certs()
        .user_token("user_a", ServerUserToken::user_pass(USER_A.0, USER_A.1))
        .user_token("user_b", ServerUserToken::user_pass(USER_B.0, USER_B.1))
        .endpoints(vec![
            ("none", ServerEndpoint::new_none(path, &users)),
            ("basic128rsa15_sign_encrypt", ServerEndpoint::new_basic128rsa15_sign_encrypt(path, &users)),
            ("basic256_sign", ServerEndpoint::new_basic256_sign(path, &users)),
            ("basic256sha256_sign", ServerEndpoint::new_basic256sha256_sign(path, &users)),
            ("basic256sha256_sign_encrypt", ServerEndpoint::new_basic256sha256_sign_encrypt(path, &users)),
            ("aes128_sign_encrypt", ServerEndpoint::new_aes128_sha256_rsaoaep_sign_encrypt(path, &users)),
            ("aes256_sign", ServerEndpoint::new_aes256_sha256_rsapss_sign(path, &users)),
        ])
        .discovery_urls(vec![path.into()])
        .max_message_size(opts.max_message_size)
        .max_chunk_count(opts.max_chunk_count)
        .max_subscriptions(opts.max_subscriptions);
    if opts.clients_can_modify_address_space {
        b = b.clients_can_modify_address_space();
    }
    b.config()
}

pub fn server(opts: &SrvOpts) -> Server {
    let cfg = config(opts);
    if !cfg.is_valid() {
        crate::engine::harness_error("server fixture configuration is invalid");
    }
    Server::new(cfg)
}

/// A peer: client-role channel with policy None used to build chunks for the server
pub struct Peer {
    pub channel: SecureChannel,
    pub next_seq: u32,
    pub next_request_id: u32,
}

impl Peer {
    pub fn new() -> Peer {
        Peer { channel: fixtures::plain_channel(Role::Client), next_seq: 1, next_request_id: 1 }
    }
    pub fn hello() -> HelloMessage {
        HelloMessage::new(ENDPOINT_URL, 65535, 65535, 0, 0)
    }
    /// chunks of a message (policy None), consuming sequence numbers and a request id
    pub fn chunks(&mut self, msg: &SupportedMessage, max_chunk_size: usize) -> Vec<MessageChunk> {
        let id = self.next_request_id;
        self.next_request_id += 1;
        let chunks = Chunker::encode(self.next_seq, id, 0, max_chunk_size, &self.channel, msg).expect("encode");
        self.next_seq += chunks.len() as u32;
        chunks
    }
    /// a hand-made chunk with an arbitrary body
    pub fn raw_chunk(&mut self, is_final: MessageIsFinalType, body: &[u8], request_id: u32) -> MessageChunk {
        let c = MessageChunk::new(self.next_seq, request_id, MessageChunkType::Message, is_final, &self.channel, body).expect("chunk");
        self.next_seq += 1;
        c
    }
    pub fn open_request(&self) -> SupportedMessage {
        OpenSecureChannelRequest {
            request_header: RequestHeader::dummy(),
            client_protocol_version: 0,
            request_type: SecurityTokenRequestType::Issue,
            security_mode: MessageSecurityMode::None,
            client_nonce: ByteString::null(),
            requested_lifetime: 600_000,
        }
        .into()
    }
    /// HEL + OPN(Issue, None) against the transport; adopts the issued channel and token ids
    pub fn handshake(&mut self, t: &mut TcpTransport) -> Result<(), String> {
        let (r, out) = t.verif_process_hello(Peer::hello(), 65535, 65535);
        r.map_err(|e| format!("hello rejected: {}", e))?;
        if out.len() != 1 {
            return Err(format!("hello produced {} messages", out.len()));
        }
        let open = self.open_request();
        let chunks = self.chunks(&open, 0);
        let (r, out) = t.verif_process_chunk(MessageChunk { data: chunks[0].data.clone() });
        r.map_err(|e| format!("open secure channel rejected: {}", e))?;
        match out.first() {
            Some((_, SupportedMessage::OpenSecureChannelResponse(resp))) => {
                self.channel.set_secure_channel_id(resp.security_token.channel_id);
                self.channel.set_token_id(resp.security_token.token_id);
                Ok(())
            }
            other => Err(format!("unexpected answer to OpenSecureChannel: {:?}", other.map(|x| &x.1))),
        }
    }
}

// ---------------------------------------------------------------------------------------------
// Connection fixture for the service-level properties: one server per worker process, one
// transport (= one connection with its own MessageHandler and SecureChannel) per case.

use opcua::core::comms::secure_channel::SecureChannel as Sc;
use opcua::server::comms::transport::Transport;
use opcua::server::session::Session;
use opcua::sync::RwLock;
use std::cell::RefCell;
use std::sync::Arc;

thread_local! {
    static WORKER_SERVER: RefCell<Option<(bool, Arc<Server>)>> = const { RefCell::new(None) };
}

/// The worker's server (created on first use; a second flavour replaces the first).
pub fn worker_server(clients_can_modify_address_space: bool) -> Arc<Server> {
    WORKER_SERVER.with(|s| {
        let mut s = s.borrow_mut();
        match &*s {
            Some((f, srv)) if *f == clients_can_modify_address_space => srv.clone(),
            _ => {
                let srv = Arc::new(server(&SrvOpts { clients_can_modify_address_space, ..SrvOpts::default() }));
                *s = Some((clients_can_modify_address_space, srv.clone()));
                srv
            }
        }
    })
}

thread_local! {
    static LOCK_RECORDING: std::cell::Cell<bool> = const { std::cell::Cell::new(false) };
}

/// Switches the lock tracing hook (C38). Fixture code that imitates server start-up switches it off around itself.
pub fn lock_recording() -> bool {
    LOCK_RECORDING.with(|r| r.get())
}

pub fn set_lock_recording(on: bool) {
    LOCK_RECORDING.with(|r| r.set(on));
    opcua::verif::locks::set_enabled(on);
}

/// Replaces the server's address space by a fresh standard one (≈ 20 ms).
pub fn reset_address_space(server: &Server) {
    // this is what Server::new does while nothing else runs; it is not part of the recorded histories
    let was = LOCK_RECORDING.with(|r| r.get());
    opcua::verif::locks::set_enabled(false);
    {
        let a = server.address_space();
        let mut a = a.write();
        *a = AddressSpace::new();
        a.set_server_state(server.server_state());
    }
    opcua::verif::locks::set_enabled(was);
}

pub struct Conn {
    pub t: TcpTransport,
    pub server: Arc<Server>,
    pub next_request_id: u32,
    pub next_handle: u32,
}

pub fn status_of(m: &SupportedMessage) -> StatusCode {
    m.response_header().service_result
}

pub fn is_fault(m: &SupportedMessage) -> bool {
    matches!(m, SupportedMessage::ServiceFault(_))
}

impl Conn {
    /// New connection on the worker's server: HEL + OPN(None). Sessions left behind by earlier cases are
    /// cleared first (the session manager is shared by all connections of a server).
    pub fn open(server: Arc<Server>) -> Conn {
        let mut t = server.new_transport();
        {
            let sm = t.session_manager();
            let mut sm = sm.write();
            sm.clear(server.address_space());
        }
        let mut peer = Peer::new();
        if let Err(e) = peer.handshake(&mut t) {
            crate::engine::harness_error(&format!("fixture handshake failed: {}", e));
        }
        Conn { t, server, next_request_id: 100, next_handle: 1000 }
    }

    pub fn secure_channel(&self) -> Arc<RwLock<Sc>> {
        self.t.verif_secure_channel()
    }

    pub fn header(&mut self, token: &NodeId) -> RequestHeader {
        self.next_handle += 1;
        let mut h = RequestHeader::new(token, &DateTime::now(), self.next_handle);
        h.timeout_hint = 0;
        h
    }

    /// Hands a request to the connection's message handler; returns what it queued for sending.
    pub fn send(&mut self, msg: &SupportedMessage) -> (Result<(), StatusCode>, Vec<SupportedMessage>) {
        self.next_request_id += 1;
        let (r, out) = self.t.verif_handle_message(self.next_request_id, msg);
        (r, out.into_iter().map(|x| x.1).collect())
    }

    /// A request that is answered immediately with exactly one message.
    pub fn call(&mut self, msg: impl Into<SupportedMessage>) -> SupportedMessage {
        let msg: SupportedMessage = msg.into();
        let (r, mut out) = self.send(&msg);
        if out.len() != 1 {
            // Publish is asynchronous; everything else answers once
            return ServiceFault::new(&RequestHeader::dummy(), r.err().unwrap_or(StatusCode::BadNothingToDo)).into();
        }
        out.remove(0)
    }

    /// CreateSession with policy None; returns (session id, authentication token)
    pub fn create_session(&mut self, timeout_ms: f64) -> Result<(NodeId, NodeId), StatusCode> {
        let h = self.header(&NodeId::null());
        let r = self.call(CreateSessionRequest {
            request_header: h,
            client_description: ApplicationDescription::default(),
            server_uri: UAString::null(),
            endpoint_url: UAString::from(ENDPOINT_URL),
            session_name: UAString::from("verif"),
            client_nonce: ByteString::null(),
            client_certificate: ByteString::null(),
            requested_session_timeout: timeout_ms,
            max_response_message_size: 0,
        });
        match r {
            SupportedMessage::CreateSessionResponse(r) => Ok((r.session_id, r.authentication_token)),
            other => Err(status_of(&other)),
        }
    }

    pub fn anonymous_token() -> ExtensionObject {
        ExtensionObject::from_encodable(ObjectId::AnonymousIdentityToken_Encoding_DefaultBinary, &AnonymousIdentityToken { policy_id: UAString::from("anonymous") })
    }

    pub fn user_token(user: &str, pass: &str) -> ExtensionObject {
        ExtensionObject::from_encodable(
            ObjectId::UserNameIdentityToken_Encoding_DefaultBinary,
            &UserNameIdentityToken { policy_id: UAString::from("userpass_none"), user_name: UAString::from(user), password: ByteString::from(pass.as_bytes()), encryption_algorithm: UAString::null() },
        )
    }

    pub fn activate(&mut self, token: &NodeId, identity: ExtensionObject) -> StatusCode {
        let h = self.header(token);
        let r = self.call(ActivateSessionRequest {
            request_header: h,
            client_signature: SignatureData::null(),
            client_software_certificates: None,
            locale_ids: None,
            user_identity_token: identity,
            user_token_signature: SignatureData::null(),
        });
        status_of(&r)
    }

    /// CreateSession + ActivateSession(anonymous); returns the authentication token
    pub fn session(&mut self) -> NodeId {
        let (_, token) = self.create_session(3_600_000.0).unwrap_or_else(|e| crate::engine::harness_error(&format!("fixture CreateSession failed: {}", e)));
        let st = self.activate(&token, Conn::anonymous_token());
        if st.is_bad() {
            crate::engine::harness_error(&format!("fixture ActivateSession failed: {}", st));
        }
        token
    }

    pub fn session_object(&self, token: &NodeId) -> Option<Arc<RwLock<Session>>> {
        let sm = self.t.session_manager();
        let sm = sm.read();
        sm.find_session_by_token(token)
    }
}

//! Subscription fixture shared by C21, C22, C26, C27, C40: one activated session on the worker's server, a simulated
//! clock that is handed to the session's own `now` parameters, probe variables, and helpers that classify what
//! comes back.
#![allow(dead_code)]
use crate::engine::*;
use crate::srv::{self, Conn};
use opcua::core::supported_message::SupportedMessage;
use opcua::server::prelude::*;
use opcua::server::session::Session;
use opcua::sync::RwLock;
use std::sync::Arc;

pub const N_VARS: usize = 4;

pub struct SubFix {
    pub conn: Conn,
    pub token: NodeId,
    pub session: Arc<RwLock<Session>>,
    pub now: chrono::DateTime<chrono::Utc>,
    pub next_request_id: u32,
    pub next_handle: u32,
}

/// What a publish response (or fault) carried, in plain data
#[derive(Clone, Debug, PartialEq)]
pub enum Delivered {
    /// subscription, sequence number, (client handle, value) pairs in order
    Data { sub: u32, seq: u32, values: Vec<(u32, i64)>, more: bool },
    KeepAlive { sub: u32, seq: u32 },
    StatusChange { sub: u32, seq: u32, status: StatusCode },
    Fault(StatusCode),
    Other(String),
}

pub fn var_id(i: usize) -> NodeId {
    NodeId::new(1, format!("subs-var-{}", i % N_VARS))
}

pub fn classify(m: &SupportedMessage) -> Delivered {
    match m {
        SupportedMessage::ServiceFault(f) => Delivered::Fault(f.response_header.service_result),
        SupportedMessage::PublishResponse(r) => {
            let n = &r.notification_message;
            let o = DecodingOptions::default();
            match &n.notification_data {
                None => Delivered::KeepAlive { sub: r.subscription_id, seq: n.sequence_number },
                Some(data) if data.is_empty() => Delivered::KeepAlive { sub: r.subscription_id, seq: n.sequence_number },
                Some(data) => {
                    for d in data {
                        if d.node_id == ObjectId::StatusChangeNotification_Encoding_DefaultBinary.into() {
                            if let Ok(s) = d.decode_inner::<StatusChangeNotification>(&o) {
                                return Delivered::StatusChange { sub: r.subscription_id, seq: n.sequence_number, status: s.status };
                            }
                        }
                    }
                    let mut values = Vec::new();
                    if let Some((dcs, _)) = n.notifications(&o) {
                        for dc in dcs {
                            for mi in dc.monitored_items.unwrap_or_default() {
                                let v = match mi.value.value {
                                    Some(Variant::Int32(v)) => v as i64,
                                    _ => i64::MIN,
                                };
                                values.push((mi.client_handle, v));
                            }
                        }
                    }
                    Delivered::Data { sub: r.subscription_id, seq: n.sequence_number, values, more: r.more_notifications }
                }
            }
        }
        other => Delivered::Other(format!("{:?}", other.node_id())),
    }
}

impl SubFix {
    pub fn new() -> SubFix {
        Self::on(srv::worker_server(false))
    }

    /// on a server of its own: subscription ids (a server-wide counter) start at 1 again, so that they collide with the small
    /// sequence numbers of other subscriptions
    pub fn fresh() -> SubFix {
        Self::on(std::sync::Arc::new(srv::server(&srv::SrvOpts::default())))
    }

    fn on(server: std::sync::Arc<Server>) -> SubFix {
        let mut conn = Conn::open(server.clone());
        let token = conn.session();
        let session = conn.session_object(&token).unwrap_or_else(|| harness_error("fixture session not registered"));
        {
            let a = server.address_space();
            let mut a = a.write();
            for i in 0..N_VARS {
                if !a.node_exists(&var_id(i)) {
                    VariableBuilder::new(&var_id(i), format!("subsvar{}", i).as_str(), "v").data_type(DataTypeId::Int32).value(0i32).organized_by(ObjectId::ObjectsFolder).insert(&mut a);
                }
            }
        }
        // ahead of the wall clock: Subscription::new and MonitoredItem creation stamp the real time
        let now = chrono::Utc::now() + chrono::Duration::hours(1);
        SubFix { conn, token, session, now, next_request_id: 10_000, next_handle: 1 }
    }

    pub fn write(&self, var: usize, value: i32) {
        let a = self.conn.server.address_space();
        let mut a = a.write();
        let dt = DateTime::from(self.now);
        let _ = a.set_variable_value(var_id(var), value, &dt, &dt);
    }

    pub fn read(&self, var: usize) -> i32 {
        let a = self.conn.server.address_space();
        let a = a.read();
        match a.get_variable_value(var_id(var)).ok().and_then(|v| v.value) {
            Some(Variant::Int32(v)) => v,
            _ => 0,
        }
    }

    /// returns (subscription id, revised interval ms, revised keep-alive, revised lifetime)
    pub fn create_sub(&mut self, interval_ms: f64, keep_alive: u32, lifetime: u32, priority: u8, enabled: bool) -> Result<(u32, f64, u32, u32), StatusCode> {
        let h = self.conn.header(&self.token);
        let r = self.conn.call(CreateSubscriptionRequest {
            request_header: h,
            requested_publishing_interval: interval_ms,
            requested_lifetime_count: lifetime,
            requested_max_keep_alive_count: keep_alive,
            max_notifications_per_publish: 0,
            publishing_enabled: enabled,
            priority,
        });
        match r {
            SupportedMessage::CreateSubscriptionResponse(r) => Ok((r.subscription_id, r.revised_publishing_interval, r.revised_max_keep_alive_count, r.revised_lifetime_count)),
            other => Err(srv::status_of(&other)),
        }
    }

    pub fn modify_sub(&mut self, sub: u32, interval_ms: f64, keep_alive: u32, lifetime: u32, priority: u8) -> StatusCode {
        let h = self.conn.header(&self.token);
        srv::status_of(&self.conn.call(ModifySubscriptionRequest {
            request_header: h,
            subscription_id: sub,
            requested_publishing_interval: interval_ms,
            requested_lifetime_count: lifetime,
            requested_max_keep_alive_count: keep_alive,
            max_notifications_per_publish: 0,
            priority,
        }))
    }

    pub fn delete_sub(&mut self, sub: u32) -> StatusCode {
        let h = self.conn.header(&self.token);
        match self.conn.call(DeleteSubscriptionsRequest { request_header: h, subscription_ids: Some(vec![sub]) }) {
            SupportedMessage::DeleteSubscriptionsResponse(r) => r.results.and_then(|v| v.first().copied()).unwrap_or(StatusCode::BadUnexpectedError),
            other => srv::status_of(&other),
        }
    }

    pub fn set_publishing(&mut self, sub: u32, enabled: bool) -> StatusCode {
        let h = self.conn.header(&self.token);
        match self.conn.call(SetPublishingModeRequest { request_header: h, publishing_enabled: enabled, subscription_ids: Some(vec![sub]) }) {
            SupportedMessage::SetPublishingModeResponse(r) => r.results.and_then(|v| v.first().copied()).unwrap_or(StatusCode::BadUnexpectedError),
            other => srv::status_of(&other),
        }
    }

    /// sampling interval -1 = sample when the publishing interval elapses; returns the monitored item id
    pub fn create_item(&mut self, sub: u32, var: usize, client_handle: u32, queue_size: u32, discard_oldest: bool) -> Result<u32, StatusCode> {
        self.create_item_with(sub, var, client_handle, queue_size, discard_oldest, -1.0)
    }

    pub fn create_item_with(&mut self, sub: u32, var: usize, client_handle: u32, queue_size: u32, discard_oldest: bool, sampling_interval: f64) -> Result<u32, StatusCode> {
        let h = self.conn.header(&self.token);
        let r = self.conn.call(CreateMonitoredItemsRequest {
            request_header: h,
            subscription_id: sub,
            timestamps_to_return: TimestampsToReturn::Both,
            items_to_create: Some(vec![MonitoredItemCreateRequest {
                item_to_monitor: ReadValueId { node_id: var_id(var), attribute_id: AttributeId::Value as u32, index_range: UAString::null(), data_encoding: QualifiedName::null() },
                monitoring_mode: MonitoringMode::Reporting,
                requested_parameters: MonitoringParameters { client_handle, sampling_interval, filter: ExtensionObject::null(), queue_size, discard_oldest },
            }]),
        });
        match r {
            SupportedMessage::CreateMonitoredItemsResponse(r) => {
                let res = r.results.unwrap_or_default();
                match res.first() {
                    Some(x) if x.status_code.is_good() => Ok(x.monitored_item_id),
                    Some(x) => Err(x.status_code),
                    None => Err(StatusCode::BadUnexpectedError),
                }
            }
            other => Err(srv::status_of(&other)),
        }
    }

    pub fn delete_item(&mut self, sub: u32, item: u32) -> StatusCode {
        let h = self.conn.header(&self.token);
        match self.conn.call(DeleteMonitoredItemsRequest { request_header: h, subscription_id: sub, monitored_item_ids: Some(vec![item]) }) {
            SupportedMessage::DeleteMonitoredItemsResponse(r) => r.results.and_then(|v| v.first().copied()).unwrap_or(StatusCode::BadUnexpectedError),
            other => srv::status_of(&other),
        }
    }

    pub fn republish(&mut self, sub: u32, seq: u32) -> Result<NotificationMessage, StatusCode> {
        let h = self.conn.header(&self.token);
        match self.conn.call(RepublishRequest { request_header: h, subscription_id: sub, retransmit_sequence_number: seq }) {
            SupportedMessage::RepublishResponse(r) => Ok(r.notification_message),
            other => Err(srv::status_of(&other)),
        }
    }

    pub fn sub_ids(&self) -> Vec<u32> {
        self.session.read().verif_subscription_ids()
    }

    /// (publish requests queued, retransmission queue length)
    pub fn queue_lens(&self) -> (usize, usize) {
        self.session.read().verif_queue_lens()
    }

    pub fn take(&mut self) -> Vec<(u32, SupportedMessage)> {
        self.session.write().verif_take_publish_responses()
    }

    /// What the connection's timer task does: expire stale publish requests, tick, collect the responses.
    pub fn tick(&mut self, ctx: &Ctx, delta_ms: i64) -> Result<Vec<(u32, SupportedMessage)>, Failure> {
        self.tick_by(ctx, chrono::Duration::milliseconds(delta_ms))
    }

    /// the same with a clock step of any resolution (the server's clock has nanoseconds)
    pub fn tick_by(&mut self, ctx: &Ctx, delta: chrono::Duration) -> Result<Vec<(u32, SupportedMessage)>, Failure> {
        self.now = self.now + delta;
        let now = self.now;
        let a = self.conn.server.address_space();
        let session = self.session.clone();
        ctx.guard(move || {
            let a = a.read();
            let mut s = session.write();
            s.verif_expire_stale_publish_requests(&now);
            let _ = s.verif_tick_subscriptions(&now, &a);
            s.verif_take_publish_responses()
        })
    }

    /// A PublishRequest as the subscription service queues it. Returns the request id used, the immediate result and
    /// the responses that became available.
    pub fn publish(&mut self, ctx: &Ctx, acks: &[(u32, u32)], timestamp: Option<DateTime>, timeout_hint: u32) -> Result<(u32, Result<(), StatusCode>, Vec<(u32, SupportedMessage)>), Failure> {
        self.next_request_id += 1;
        self.next_handle += 1;
        let id = self.next_request_id;
        let mut h = RequestHeader::new(&self.token, &timestamp.unwrap_or(DateTime::from(self.now)), self.next_handle);
        h.timeout_hint = timeout_hint;
        let req = PublishRequest {
            request_header: h,
            subscription_acknowledgements: if acks.is_empty() { None } else { Some(acks.iter().map(|(s, n)| SubscriptionAcknowledgement { subscription_id: *s, sequence_number: *n }).collect()) },
        };
        if self.sub_ids().is_empty() {
            // async_publish answers BadNoSubscription without queueing
            return Ok((id, Err(StatusCode::BadNoSubscription), Vec::new()));
        }
        let now = self.now;
        let a = self.conn.server.address_space();
        let session = self.session.clone();
        let (r, out) = ctx.guard(move || {
            let a = a.read();
            let mut s = session.write();
            let r = s.verif_enqueue_publish_request(&now, id, req, &a);
            (r, s.verif_take_publish_responses())
        })?;
        Ok((id, r, out))
    }
}

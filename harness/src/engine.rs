//! Engine: proptest driver, classification counters, evidence, replay, known findings,
//! worker-process isolation.  See DESIGN.md section 2.1.
use proptest::strategy::{Strategy, ValueTree};
use proptest::test_runner::{Config, RngSeed, TestCaseError, TestError, TestRunner};
use serde::{de::DeserializeOwned, Deserialize, Serialize};
use std::cell::{Cell, RefCell};
use std::collections::hash_map::DefaultHasher;
use std::collections::{BTreeMap, HashSet};
use std::fmt::Debug;
use std::hash::{Hash, Hasher};
use std::panic::{catch_unwind, AssertUnwindSafe};
use std::sync::Mutex;
use std::time::Instant;

pub const VERIF_DIR: &str = "/verif";
pub const SCRATCH_DIR: &str = "/verif/target/verif";

#[derive(Clone, Copy, PartialEq, Eq, Debug)]
pub enum Tier {
    Quick,
    Thorough,
}

impl Tier {
    pub fn name(self) -> &'static str {
        match self {
            Tier::Quick => "quick",
            Tier::Thorough => "thorough",
        }
    }
    /// picks a count by tier
    pub fn pick(self, quick: u32, thorough: u32) -> u32 {
        match self {
            Tier::Quick => quick,
            Tier::Thorough => thorough,
        }
    }
}

#[derive(Clone, Debug, Serialize, Deserialize)]
pub struct Failure {
    /// root-cause signature: oracle clause plus discriminating features; stable under unrelated edits
    pub sig: String,
    pub detail: String,
}

pub type PResult = Result<(), Failure>;

// ---------------------------------------------------------------------------------------------
// panic capture

static LAST_PANIC: Mutex<Option<(String, String)>> = Mutex::new(None);

pub fn install_panic_hook() {
    std::panic::set_hook(Box::new(|info| {
        let loc = info
            .location()
            .map(|l| format!("{}:{}", l.file(), l.line()))
            .unwrap_or_else(|| "?".into());
        let msg = if let Some(s) = info.payload().downcast_ref::<&str>() {
            s.to_string()
        } else if let Some(s) = info.payload().downcast_ref::<String>() {
            s.clone()
        } else {
            "<non-string panic>".to_string()
        };
        if std::env::var("VERIF_VERBOSE_PANICS").is_ok() {
            eprintln!("[panic] {} {}", loc, msg);
        }
        *LAST_PANIC.lock().unwrap_or_else(|e| e.into_inner()) = Some((loc, msg));
    }));
}

pub fn take_last_panic() -> Option<(String, String)> {
    LAST_PANIC.lock().unwrap_or_else(|e| e.into_inner()).take()
}

fn normalise_msg(msg: &str) -> String {
    let first = msg.lines().next().unwrap_or("");
    let mut out = String::new();
    let mut in_digits = false;
    for c in first.chars() {
        if c.is_ascii_digit() {
            if !in_digits {
                out.push('N');
            }
            in_digits = true;
        } else {
            in_digits = false;
            out.push(c);
        }
    }
    out.chars().take(100).collect()
}

/// Signature of a panic: source file (no line number) + normalised message.
pub fn panic_failure(loc: &str, msg: &str) -> Failure {
    let file = loc.rsplit_once(':').map(|x| x.0).unwrap_or(loc);
    let file = match (file.find("lib/src/"), file.find("/library/")) {
        (Some(i), _) => &file[i..],
        // panics raised inside the standard library: drop the toolchain hash
        (None, Some(i)) if file.starts_with("/rustc/") => &file[i + 1..],
        _ => file,
    };
    Failure {
        sig: format!("panic:{}:{}", file, normalise_msg(msg)),
        detail: format!("panic at {}: {}", loc, msg.lines().next().unwrap_or("")),
    }
}

/// Result of running code under test with panics caught.
pub fn guarded<T>(f: impl FnOnce() -> T) -> Result<T, Failure> {
    let _ = take_last_panic();
    match catch_unwind(AssertUnwindSafe(f)) {
        Ok(v) => Ok(v),
        Err(_) => {
            let (loc, msg) = take_last_panic().unwrap_or(("?".into(), "?".into()));
            if loc.contains("/verif/harness/") || loc.starts_with("src/") {
                harness_error(&format!("panic inside harness code at {}: {}", loc, msg));
            }
            Err(panic_failure(&loc, &msg))
        }
    }
}

/// Runs `f` on a thread with a 2 MiB stack (tokio's default worker stack size, the stack the
/// server really decodes on).  Stack exhaustion kills the worker process; the parent reports it.
pub fn guarded_small_stack<T: Send + 'static>(
    f: impl FnOnce() -> T + Send + 'static,
) -> Result<T, Failure> {
    let _ = take_last_panic();
    let h = std::thread::Builder::new()
        .stack_size(2 * 1024 * 1024)
        .spawn(f)
        .expect("spawn");
    match h.join() {
        Ok(v) => Ok(v),
        Err(_) => {
            let (loc, msg) = take_last_panic().unwrap_or(("?".into(), "?".into()));
            if loc.contains("/verif/harness/") || loc.starts_with("src/") {
                harness_error(&format!("panic inside harness code at {}: {}", loc, msg));
            }
            Err(panic_failure(&loc, &msg))
        }
    }
}

pub fn harness_error(msg: &str) -> ! {
    println!("HARNESS-ERROR {}", msg);
    eprintln!("HARNESS-ERROR {}", msg);
    std::process::exit(2);
}

// ---------------------------------------------------------------------------------------------
// known findings

#[derive(Clone, Debug, Serialize, Deserialize)]
pub struct KnownFinding {
    pub property: String,
    pub sig: String,
    /// "open" (recorded, tolerated on exactly this signature) or "fixed" (suppresses nothing)
    pub status: String,
    pub what: String,
    #[serde(default)]
    pub commit: Option<String>,
    #[serde(default)]
    pub witness: Option<String>,
}

#[derive(Clone, Debug, Serialize, Deserialize, Default)]
pub struct KnownFindings {
    pub findings: Vec<KnownFinding>,
}

pub fn load_known_findings() -> KnownFindings {
    let p = format!("{}/known_findings.json", VERIF_DIR);
    match std::fs::read_to_string(&p) {
        Ok(s) => serde_json::from_str(&s)
            .unwrap_or_else(|e| harness_error(&format!("known_findings.json does not parse: {}", e))),
        Err(_) => KnownFindings::default(),
    }
}

// ---------------------------------------------------------------------------------------------
// context and statistics

#[derive(Default)]
pub struct Stats {
    pub evaluations: u64,
    pub nontrivial_hashes: HashSet<u64>,
    /// distinct non-trivial inputs counted by a fuzz target itself (the engine does not see its inputs)
    pub fuzz_distinct_nontrivial: u64,
    pub classes: BTreeMap<String, u64>,
    pub known_hits: BTreeMap<String, u64>,
    pub samples: Vec<serde_json::Value>,
    pub per_part: BTreeMap<String, u64>,
    pub excluded: u64,
    pub notes: Vec<String>,
    pub exhaustive_parts: Vec<String>,
}

pub struct Ctx {
    pub tier: Tier,
    pub seed: u64,
    pub strict: bool,
    pub property: String,
    known_open: HashSet<String>,
    pub stats: RefCell<Stats>,
    counting: Cell<bool>,
    cur_nontrivial: Cell<bool>,
    cur_part: RefCell<String>,
    write_ahead: Option<String>,
}

impl Ctx {
    pub fn new(property: &str, tier: Tier, seed: u64, strict: bool, abort_possible: bool) -> Ctx {
        let kf = load_known_findings();
        let known_open = kf
            .findings
            .iter()
            .filter(|f| f.property == property && f.status == "open")
            .map(|f| f.sig.clone())
            .collect();
        let write_ahead = if abort_possible {
            Some(format!("{}/{}.current", SCRATCH_DIR, property))
        } else {
            None
        };
        Ctx {
            tier,
            seed,
            strict,
            property: property.to_string(),
            known_open,
            stats: RefCell::new(Stats::default()),
            counting: Cell::new(true),
            cur_nontrivial: Cell::new(false),
            cur_part: RefCell::new(String::new()),
            write_ahead,
        }
    }

    /// count the current case under a class label
    pub fn class(&self, name: &str) {
        if self.counting.get() {
            *self.stats.borrow_mut().classes.entry(name.to_string()).or_insert(0) += 1;
        }
    }
    pub fn class_n(&self, name: &str, n: u64) {
        if self.counting.get() {
            *self.stats.borrow_mut().classes.entry(name.to_string()).or_insert(0) += n;
        }
    }
    /// the current case satisfies the property's non-triviality rule
    pub fn nontrivial(&self) {
        self.cur_nontrivial.set(true);
    }
    /// the case lies in a region excluded by construction (documented in DESIGN.md)
    pub fn excluded(&self) {
        if self.counting.get() {
            self.stats.borrow_mut().excluded += 1;
        }
    }
    pub fn note(&self, s: &str) {
        let mut st = self.stats.borrow_mut();
        if st.notes.len() < 20 && !st.notes.iter().any(|n| n == s) {
            st.notes.push(s.to_string());
        }
    }
    /// true if a failure with this signature is a listed open finding (and we are not in strict mode)
    pub fn is_known(&self, sig: &str) -> bool {
        !self.strict && self.known_open.contains(sig)
    }
    /// Report an oracle failure: always ends the case. If the signature is a listed open finding the
    /// engine counts the hit and treats the case as passed, so the search continues behind it.
    pub fn fail<T>(&self, sig: impl Into<String>, detail: impl Into<String>) -> Result<T, Failure> {
        Err(Failure { sig: sig.into(), detail: detail.into() })
    }
    /// Count a hit of a known finding explicitly (for checks that continue past it).
    pub fn hit(&self, sig: &str) {
        if self.counting.get() {
            *self.stats.borrow_mut().known_hits.entry(sig.to_string()).or_insert(0) += 1;
        }
    }
    /// Run code under test, converting a panic into a failure.
    pub fn guard<T>(&self, f: impl FnOnce() -> T) -> Result<T, Failure> {
        guarded(f)
    }

    fn begin_case<C: Serialize>(&self, part: &str, case: &C, counting: bool) {
        self.counting.set(counting);
        self.cur_nontrivial.set(false);
        if counting {
            let mut st = self.stats.borrow_mut();
            st.evaluations += 1;
            *st.per_part.entry(part.to_string()).or_insert(0) += 1;
        }
        if let Some(p) = &self.write_ahead {
            let v = serde_json::json!({"property": self.property, "part": part, "seed": self.seed,
                "evaluations": self.stats.borrow().evaluations, "case": case});
            let _ = std::fs::write(p, serde_json::to_vec(&v).unwrap_or_default());
        }
    }

    fn end_case<C: Serialize>(&self, part: &str, case: &C) {
        if self.counting.get() && self.cur_nontrivial.get() {
            let js = serde_json::to_vec(case).unwrap_or_default();
            let mut h = DefaultHasher::new();
            part.hash(&mut h);
            js.hash(&mut h);
            let mut st = self.stats.borrow_mut();
            let fresh = st.nontrivial_hashes.insert(h.finish());
            let n = st.nontrivial_hashes.len();
            // keep the 1st, 2nd, 10th, 100th, 1000th ... distinct non-trivial case as samples
            if fresh && (n <= 2 || n == 10 || n == 100 || n == 1000 || n == 10000) && st.samples.len() < 8 {
                let mut v: serde_json::Value = serde_json::from_slice(&js).unwrap_or(serde_json::Value::Null);
                if js.len() > 3000 {
                    let s = String::from_utf8_lossy(&js);
                    let cut: String = s.chars().take(3000).collect();
                    v = serde_json::Value::String(format!("{}…(truncated, {} bytes)", cut, js.len()));
                }
                st.samples.push(serde_json::json!({"part": part, "case": v}));
            }
        }
    }
}

// ---------------------------------------------------------------------------------------------
// parts

pub struct Report {
    pub part: String,
    pub case: serde_json::Value,
    pub failure: Failure,
}

pub struct Part {
    pub name: String,
    pub run: Box<dyn Fn(&Ctx) -> Option<Report>>,
    pub replay: Box<dyn Fn(&Ctx, serde_json::Value) -> PResult>,
}

fn fnv(s: &str) -> u64 {
    let mut h: u64 = 0xcbf29ce484222325;
    for b in s.bytes() {
        h ^= b as u64;
        h = h.wrapping_mul(0x100000001b3);
    }
    h
}

fn run_one<C: Serialize, F: Fn(&Ctx, &C) -> PResult>(ctx: &Ctx, part: &str, f: &F, case: &C, counting: bool) -> PResult {
    ctx.begin_case(part, case, counting);
    let mut r = match guarded(|| f(ctx, case)) {
        Ok(r) => r,
        Err(fl) => Err(fl),
    };
    if let Err(fl) = &r {
        if ctx.is_known(&fl.sig) {
            ctx.hit(&fl.sig);
            r = Ok(());
        }
    }
    ctx.end_case(part, case);
    r
}

/// A part driven by a proptest strategy: `cases` generated cases, shrunk on failure.
pub fn part<C, S, F>(name: &str, cases: u32, strategy: S, f: F) -> Part
where
    C: Serialize + DeserializeOwned + Debug + Clone + 'static,
    S: Strategy<Value = C> + 'static,
    F: Fn(&Ctx, &C) -> PResult + Clone + 'static,
{
    let pname = name.to_string();
    let pname2 = name.to_string();
    let f2 = f.clone();
    Part {
        name: name.to_string(),
        run: Box::new(move |ctx: &Ctx| {
            let seed = ctx.seed.wrapping_mul(0x9E3779B97F4A7C15) ^ fnv(&pname) ^ fnv(&ctx.property);
            let cfg = Config {
                cases,
                rng_seed: RngSeed::Fixed(seed),
                failure_persistence: None,
                max_shrink_iters: 2000,
                max_shrink_time: 60_000,
                verbose: 0,
                ..Config::default()
            };
            let mut runner = TestRunner::new(cfg);
            let failed = Cell::new(false);
            let res = runner.run(&strategy, |case| {
                let r = run_one(ctx, &pname, &f, &case, !failed.get());
                match r {
                    Ok(()) => Ok(()),
                    Err(fl) => {
                        failed.set(true);
                        Err(TestCaseError::fail(fl.sig))
                    }
                }
            });
            match res {
                Ok(()) => None,
                Err(TestError::Fail(_, case)) => {
                    let failure = match run_one(ctx, &pname, &f, &case, false) {
                        Err(fl) => fl,
                        Ok(()) => Failure { sig: "flaky".into(), detail: "minimal case passed on re-run".into() },
                    };
                    Some(Report { part: pname.clone(), case: serde_json::to_value(&case).unwrap(), failure })
                }
                Err(TestError::Abort(r)) => harness_error(&format!("proptest aborted in part {}: {}", pname, r)),
            }
        }),
        replay: Box::new(move |ctx: &Ctx, v: serde_json::Value| {
            let case: C = serde_json::from_value(v).map_err(|e| Failure {
                sig: "replay-parse".into(),
                detail: format!("replay case does not deserialise: {}", e),
            })?;
            run_one(ctx, &pname2, &f2, &case, true)
        }),
    }
}

/// A part that enumerates a finite list of cases completely (no shrinking; first failure reported).
pub fn part_enum<C, I, F>(name: &str, make: I, f: F) -> Part
where
    C: Serialize + DeserializeOwned + Debug + Clone + 'static,
    I: Fn(Tier) -> Box<dyn Iterator<Item = C>> + 'static,
    F: Fn(&Ctx, &C) -> PResult + Clone + 'static,
{
    let pname = name.to_string();
    let pname2 = name.to_string();
    let f2 = f.clone();
    Part {
        name: name.to_string(),
        run: Box::new(move |ctx: &Ctx| {
            ctx.stats.borrow_mut().exhaustive_parts.push(pname.clone());
            for case in make(ctx.tier) {
                if let Err(failure) = run_one(ctx, &pname, &f, &case, true) {
                    return Some(Report { part: pname.clone(), case: serde_json::to_value(&case).unwrap(), failure });
                }
            }
            None
        }),
        replay: Box::new(move |ctx: &Ctx, v: serde_json::Value| {
            let case: C = serde_json::from_value(v).map_err(|e| Failure {
                sig: "replay-parse".into(),
                detail: format!("replay case does not deserialise: {}", e),
            })?;
            run_one(ctx, &pname2, &f2, &case, true)
        }),
    }
}

/// Generate one value from a strategy deterministically (used to build enumerations from strategies).
pub fn sample_strategy<S: Strategy>(s: &S, seed: u64, n: usize) -> Vec<S::Value> {
    let mut runner = TestRunner::new(Config { rng_seed: RngSeed::Fixed(seed), failure_persistence: None, ..Config::default() });
    (0..n).filter_map(|_| s.new_tree(&mut runner).ok().map(|t| t.current())).collect()
}

// ---------------------------------------------------------------------------------------------
// property definition and runner

// ---------------------------------------------------------------------------------------------
// coverage-guided part: a libFuzzer campaign of one target of /verif/fuzz (thorough tier)

const FUZZ_DIR: &str = "/verif/fuzz";
const FUZZ_BIN: &str = "/verif/target/fuzz/x86_64-unknown-linux-gnu/release/verif_fuzz";

fn fuzz_build() {
    let out = std::process::Command::new("cargo")
        .args(["+nightly", "fuzz", "build", "--fuzz-dir", FUZZ_DIR, "verif_fuzz"])
        .current_dir(FUZZ_DIR)
        .env("CARGO_NET_OFFLINE", "true")
        .env("RUSTFLAGS", "--cfg locka99_opcua_verif -Awarnings")
        .output();
    match out {
        Ok(o) if o.status.success() => {}
        Ok(o) => harness_error(&format!("cargo fuzz build failed: {}", String::from_utf8_lossy(&o.stderr).lines().rev().take(12).collect::<Vec<_>>().join(" | "))),
        Err(e) => harness_error(&format!("cargo fuzz build could not be started: {}", e)),
    }
}

fn hex(b: &[u8]) -> String {
    b.iter().map(|x| format!("{:02x}", x)).collect()
}

fn unhex(s: &str) -> Vec<u8> {
    (0..s.len() / 2).filter_map(|i| u8::from_str_radix(&s[2 * i..2 * i + 2], 16).ok()).collect()
}

/// runs the target on one input file; Some(failure) if it does not survive
fn fuzz_run_one(target: &str, input: &[u8]) -> Option<Failure> {
    let dir = format!("{}/fuzz/replay-{}-{}", SCRATCH_DIR, target, std::process::id());
    let _ = std::fs::create_dir_all(&dir);
    let file = format!("{}/input", dir);
    if std::fs::write(&file, input).is_err() {
        harness_error("cannot write the fuzz replay input");
    }
    let out = std::process::Command::new(FUZZ_BIN)
        .arg(&file)
        .args(["-malloc_limit_mb=16", "-rss_limit_mb=3000", "-timeout=60"])
        .arg(format!("-artifact_prefix={}/", dir))
        .env("VERIF_FUZZ_TARGET", target)
        .output()
        .unwrap_or_else(|e| harness_error(&format!("fuzz target could not be started: {}", e)));
    let log = String::from_utf8_lossy(&out.stderr).to_string();
    let _ = std::fs::remove_dir_all(&dir);
    if out.status.success() {
        None
    } else {
        Some(fuzz_failure(target, &log))
    }
}

fn fuzz_failure(target: &str, log: &str) -> Failure {
    let lines: Vec<&str> = log.lines().collect();
    let mut what = String::new();
    for (i, l) in lines.iter().enumerate() {
        if l.contains("panicked at") {
            let loc = l.split("panicked at ").nth(1).unwrap_or("").trim_end_matches(':');
            let msg = lines.get(i + 1).copied().unwrap_or("");
            if loc.starts_with("src/") {
                // the target's own oracle: its messages start with a tag
                let tag = msg.split(':').next().unwrap_or("oracle").trim();
                return Failure { sig: format!("fuzz/{}/{}", target, tag), detail: format!("{} {}", l.trim(), msg.chars().take(900).collect::<String>()) };
            }
            let f = panic_failure(loc, msg);
            return Failure { sig: format!("fuzz/{}/{}", target, f.sig), detail: format!("{} {}", l.trim(), msg.chars().take(600).collect::<String>()) };
        }
        if l.contains("ERROR: libFuzzer:") || l.contains("ERROR: AddressSanitizer") {
            what = l.trim().to_string();
        }
    }
    let kind = if what.contains("out-of-memory (malloc") {
        "single-allocation-above-16MiB"
    } else if what.contains("AddressSanitizer") {
        "address-sanitizer"
    } else if what.contains("deadly signal") {
        "abort"
    } else {
        "other"
    };
    Failure { sig: format!("fuzz/{}/{}", target, kind), detail: what }
}

/// A libFuzzer campaign: fixed number of runs, seed from VERIF_SEED, fresh corpus made of the committed seeds. The oracle is
/// inside the target; the target counts executions / non-trivial inputs itself and the numbers are added to the evidence.
pub fn part_fuzz(name: &str, target: &'static str, runs: u64, max_len: u32) -> Part {
    let pname = name.to_string();
    Part {
        name: name.to_string(),
        run: Box::new(move |ctx: &Ctx| {
            fuzz_build();
            let dir = format!("{}/fuzz/{}-{}", SCRATCH_DIR, target, ctx.seed);
            let _ = std::fs::remove_dir_all(&dir);
            let corpus = format!("{}/corpus", dir);
            let _ = std::fs::create_dir_all(&corpus);
            // seeds: committed small valid inputs, and for the chunk target the valid secured chunks it can make itself
            if let Ok(rd) = std::fs::read_dir(format!("{}/seeds/{}", FUZZ_DIR, target)) {
                for e in rd.flatten() {
                    let _ = std::fs::copy(e.path(), format!("{}/{}", corpus, e.file_name().to_string_lossy()));
                }
            }
            // and the minimised corpus of earlier long campaigns (one archive per target)
            let archive = format!("{}/seeds/{}.tar.gz", FUZZ_DIR, target);
            if std::path::Path::new(&archive).exists() {
                let _ = std::process::Command::new("tar").args(["xzf", &archive, "-C", &corpus]).output();
            }
            if target == "c09_chunk_recv" {
                // (the target leaves through exit(0) inside its first run, which libFuzzer records as an artifact: keep that
                // empty file in the scratch directory under a name the artifact search below does not match)
                let _ = std::process::Command::new(FUZZ_BIN).arg("-runs=1").arg(format!("-artifact_prefix={}/mkcorpus-", dir)).env("VERIF_FUZZ_MKCORPUS", &corpus).output();
            }
            let stats_file = format!("{}/stats.json", dir);
            let seed = (ctx.seed % 0xFFFF_FFFE) + 1;
            let mut child = std::process::Command::new(FUZZ_BIN)
                .arg(&corpus)
                .arg(format!("-runs={}", runs))
                .arg(format!("-seed={}", seed))
                .arg(format!("-max_len={}", max_len))
                .args(["-len_control=0", "-malloc_limit_mb=16", "-rss_limit_mb=3000", "-timeout=60", "-print_final_stats=1"])
                .arg(format!("-artifact_prefix={}/", dir))
                .env("VERIF_FUZZ_TARGET", target)
                .env("VERIF_FUZZ_STATS", &stats_file)
                .stdout(std::process::Stdio::null())
                .stderr(std::fs::File::create(format!("{}/log", dir)).map(std::process::Stdio::from).unwrap_or_else(|_| std::process::Stdio::null()))
                .spawn()
                .unwrap_or_else(|e| harness_error(&format!("fuzz target could not be started: {}", e)));
            let started = std::time::Instant::now();
            let status = loop {
                match child.try_wait() {
                    Ok(Some(st)) => break st,
                    Ok(None) => {
                        if started.elapsed() > std::time::Duration::from_secs(3 * 3600) {
                            let _ = child.kill();
                            harness_error("fuzz campaign exceeded its wall-clock guard of 3 h");
                        }
                        std::thread::sleep(std::time::Duration::from_millis(200));
                    }
                    Err(e) => harness_error(&format!("waiting for the fuzz target: {}", e)),
                }
            };
            let log = std::fs::read_to_string(format!("{}/log", dir)).unwrap_or_default();
            // what the target counted
            let stats: serde_json::Value = std::fs::read_to_string(&stats_file).ok().and_then(|s| serde_json::from_str(&s).ok()).unwrap_or_default();
            let executed = log.lines().find_map(|l| l.strip_prefix("stat::number_of_executed_units:").and_then(|x| x.trim().parse::<u64>().ok())).or_else(|| stats.get("executions").and_then(|x| x.as_u64())).unwrap_or(0);
            {
                let mut st = ctx.stats.borrow_mut();
                st.evaluations += executed;
                *st.per_part.entry(pname.clone()).or_insert(0) += executed;
                st.fuzz_distinct_nontrivial += stats.get("distinct_nontrivial").and_then(|x| x.as_u64()).unwrap_or(0);
                if let Some(c) = stats.get("classes").and_then(|c| c.as_object()) {
                    for (k, v) in c {
                        *st.classes.entry(format!("fuzz:{}", k)).or_insert(0) += v.as_u64().unwrap_or(0);
                    }
                }
                if let Some(l) = log.lines().rev().find(|l| l.contains(" cov: ")) {
                    st.notes.push(format!("libFuzzer {} ({} runs requested, seed {}): {}", target, runs, seed, l.trim().chars().take(160).collect::<String>()));
                }
            }
            if status.success() {
                return None;
            }
            // a finding: the artifact libFuzzer wrote is the reproducible unit
            let artifact = std::fs::read_dir(&dir).ok().and_then(|rd| rd.flatten().map(|e| e.path()).find(|p| p.file_name().map(|n| { let n = n.to_string_lossy(); n.starts_with("crash-") || n.starts_with("oom-") || n.starts_with("timeout-") || n.starts_with("leak-") }).unwrap_or(false)));
            let Some(artifact) = artifact else { harness_error(&format!("fuzz target {} ended with {:?} without an artifact: {}", target, status, log.lines().rev().take(5).collect::<Vec<_>>().join(" | "))) };
            let name = artifact.file_name().map(|n| n.to_string_lossy().to_string()).unwrap_or_default();
            if name.starts_with("timeout-") || (name.starts_with("oom-") && !log.contains("out-of-memory (malloc")) {
                // a slow unit or the resident-set limit: inconclusive, never a verdict
                harness_error(&format!("fuzz target {} hit a resource guard ({}); input kept at {}", target, name, artifact.display()));
            }
            let input = std::fs::read(&artifact).unwrap_or_default();
            let failure = fuzz_failure(target, &log);
            Some(Report { part: pname.clone(), case: serde_json::json!({ "fuzz_target": target, "input_hex": hex(&input) }), failure })
        }),
        replay: Box::new(move |_ctx: &Ctx, v: serde_json::Value| {
            let input = unhex(v.get("input_hex").and_then(|x| x.as_str()).unwrap_or(""));
            let target = v.get("fuzz_target").and_then(|x| x.as_str()).unwrap_or(target).to_string();
            fuzz_build();
            match fuzz_run_one(&target, &input) {
                None => Ok(()),
                Some(f) => Err(f),
            }
        }),
    }
}

pub struct PropDef {
    pub id: &'static str,
    pub rule: &'static str,
    pub assumptions: &'static [&'static str],
    /// stack overflow / abort is a possible outcome: use write-ahead of the current case
    pub abort_possible: bool,
    pub parts: fn(Tier) -> Vec<Part>,
}

#[derive(Serialize, Deserialize)]
pub struct ReplayFile {
    pub property: String,
    pub part: String,
    #[serde(default)]
    pub seed: u64,
    pub case: serde_json::Value,
    #[serde(default)]
    pub failure: Option<Failure>,
}

fn write_replay(ctx: &Ctx, rep: &Report) -> String {
    let dir = format!("{}/replay", SCRATCH_DIR);
    let _ = std::fs::create_dir_all(&dir);
    let path = format!("{}/{}-{}-{}.json", dir, ctx.property, rep.part, ctx.seed);
    let rf = ReplayFile {
        property: ctx.property.clone(),
        part: rep.part.clone(),
        seed: ctx.seed,
        case: rep.case.clone(),
        failure: Some(rep.failure.clone()),
    };
    std::fs::write(&path, serde_json::to_string_pretty(&rf).unwrap()).expect("write replay");
    path
}

pub fn write_evidence(prop: &PropDef, ctx: &Ctx, wall_s: f64, violations: u32, extra: serde_json::Value) {
    let st = ctx.stats.borrow();
    let mut samples = st.samples.clone();
    if samples.is_empty() {
        samples.push(serde_json::json!("no non-trivial case was generated in this run"));
    }
    let ev = serde_json::json!({
        "property_id": prop.id,
        "tier": ctx.tier.name(),
        "seed": ctx.seed,
        "level": "exploration",
        "coverage": {
            "evaluations": st.evaluations,
            "distinct_nontrivial": st.nontrivial_hashes.len() as u64 + st.fuzz_distinct_nontrivial,
            "rule": prop.rule,
            "samples": samples,
            "classes": st.classes,
            "evaluations_per_part": st.per_part,
            "known_findings_hit": st.known_hits,
            "excluded_cases": st.excluded,
            "exhaustively_enumerated_parts": st.exhaustive_parts,
            "exhaustive": false,
            "notes": st.notes,
            "extra": extra,
        },
        "assumptions": prop.assumptions,
        "wall_s": wall_s,
        "violations": violations,
    });
    let _ = std::fs::create_dir_all(format!("{}/evidence", VERIF_DIR));
    let path = format!("{}/evidence/{}.json", VERIF_DIR, prop.id);
    std::fs::write(&path, serde_json::to_string_pretty(&ev).unwrap()).expect("write evidence");
}

/// Runs a whole property in this process. Returns the exit code.
pub fn run_property(prop: &PropDef, tier: Tier, seed: u64, only_part: Option<&str>) -> i32 {
    let start = Instant::now();
    let _ = std::fs::create_dir_all(SCRATCH_DIR);
    let ctx = Ctx::new(prop.id, tier, seed, false, prop.abort_possible);
    let parts = (prop.parts)(tier);
    let kf = load_known_findings();
    let mut violations = 0u32;
    let mut reproduced: HashSet<String> = HashSet::new();

    // 1. replay tier: stored witnesses (regressions of fixed defects, and open findings)
    let wdir = format!("{}/findings/{}", VERIF_DIR, prop.id);
    let mut witness_files: Vec<String> = std::fs::read_dir(&wdir)
        .map(|rd| rd.filter_map(|e| e.ok()).map(|e| e.path().to_string_lossy().to_string()).filter(|p| p.ends_with(".json")).collect())
        .unwrap_or_default();
    witness_files.sort();
    let mut replayed = 0u64;
    if only_part.is_none() {
        for wf in &witness_files {
            let rf: ReplayFile = match std::fs::read_to_string(wf).ok().and_then(|s| serde_json::from_str(&s).ok()) {
                Some(r) => r,
                None => harness_error(&format!("witness {} does not parse", wf)),
            };
            let Some(p) = parts.iter().find(|p| p.name == rf.part) else {
                harness_error(&format!("witness {} names unknown part {}", wf, rf.part));
            };
            let sctx = Ctx::new(prop.id, tier, seed, true, prop.abort_possible);
            replayed += 1;
            if let Err(fl) = (p.replay)(&sctx, rf.case.clone()) {
                let open = kf.findings.iter().any(|k| k.property == prop.id && k.status == "open" && k.sig == fl.sig);
                if open {
                    reproduced.insert(fl.sig.clone());
                } else {
                    println!("witness {} fails: [{}] {}", wf, fl.sig, fl.detail);
                    println!("VIOLATION property={} replay={}", prop.id, wf);
                    violations += 1;
                }
            }
        }
    }

    // 2. generated search
    if violations == 0 {
        for p in &parts {
            if let Some(op) = only_part {
                if op != p.name {
                    continue;
                }
            }
            if let Some(rep) = (p.run)(&ctx) {
                let path = write_replay(&ctx, &rep);
                println!("part {} failed: [{}] {}", rep.part, rep.failure.sig, rep.failure.detail);
                let cs = serde_json::to_string(&rep.case).unwrap_or_default();
                println!("minimal case: {}", cs.chars().take(1500).collect::<String>());
                println!("VIOLATION property={} replay={}", prop.id, path);
                violations += 1;
                break;
            }
        }
    }

    // 3. known findings
    for k in kf.findings.iter().filter(|k| k.property == prop.id && k.status == "open") {
        let hits = ctx.stats.borrow().known_hits.get(&k.sig).copied().unwrap_or(0);
        if hits > 0 || reproduced.contains(&k.sig) {
            println!("KNOWN-FINDING: property={} {} [sig {}; hit {} times in this run]", prop.id, k.what, k.sig, hits);
        } else {
            println!("note: listed finding [{}] was not reproduced in this run", k.sig);
        }
    }

    let wall = start.elapsed().as_secs_f64();
    write_evidence(prop, &ctx, wall, violations, serde_json::json!({"witnesses_replayed": replayed}));
    let st = ctx.stats.borrow();
    println!(
        "{} {} seed={} evaluations={} distinct_nontrivial={} known_hits={} wall={:.1}s -> {}",
        prop.id,
        tier.name(),
        seed,
        st.evaluations,
        st.nontrivial_hashes.len() as u64 + st.fuzz_distinct_nontrivial,
        st.known_hits.values().sum::<u64>(),
        wall,
        if violations == 0 { "ok" } else { "VIOLATION" }
    );
    if violations > 0 {
        1
    } else {
        0
    }
}

/// Replays one file in strict mode (known-finding tolerance off).
pub fn replay_file(props: &[PropDef], path: &str) -> i32 {
    let rf: ReplayFile = match std::fs::read_to_string(path).ok().and_then(|s| serde_json::from_str(&s).ok()) {
        Some(r) => r,
        None => harness_error(&format!("replay file {} does not parse", path)),
    };
    let Some(prop) = props.iter().find(|p| p.id == rf.property) else {
        harness_error(&format!("unknown property {}", rf.property));
    };
    // the thorough tier has every part of the quick tier and the coverage-guided ones
    let mut parts = (prop.parts)(Tier::Quick);
    if !parts.iter().any(|p| p.name == rf.part) {
        parts = (prop.parts)(Tier::Thorough);
    }
    let Some(p) = parts.iter().find(|p| p.name == rf.part) else {
        harness_error(&format!("unknown part {}", rf.part));
    };
    let ctx = Ctx::new(prop.id, Tier::Quick, rf.seed, true, prop.abort_possible);
    match (p.replay)(&ctx, rf.case) {
        Ok(()) => {
            println!("replay {}: property {} holds on this case", path, prop.id);
            0
        }
        Err(fl) => {
            println!("replay {}: [{}] {}", path, fl.sig, fl.detail);
            println!("VIOLATION property={} replay={}", prop.id, path);
            1
        }
    }
}

// ---------------------------------------------------------------------------------------------
// tokio context for code that creates timers or channels (the harness owns the schedule: futures are
// polled explicitly, no time passes)

thread_local! {
    static RUNTIME: tokio::runtime::Runtime = tokio::runtime::Builder::new_current_thread().enable_all().build().expect("tokio runtime");
}

/// Runs `f` inside a current-thread tokio runtime context.
pub fn in_runtime<T>(f: impl FnOnce() -> T) -> T {
    RUNTIME.with(|rt| {
        let _g = rt.enter();
        f()
    })
}

/// Drives a future to completion on the harness runtime.
pub fn block_on<F: std::future::Future>(f: F) -> F::Output {
    RUNTIME.with(|rt| rt.block_on(f))
}

mod alloc_track;
mod engine;
mod filler;
mod fixtures;
mod live;
mod props;
mod srv;
mod subs;
include!(concat!(env!("OUT_DIR"), "/service_fillers.rs"));

use engine::*;

#[global_allocator]
static ALLOC: alloc_track::Counting = alloc_track::Counting;
use std::os::unix::process::ExitStatusExt;
use std::process::Command;
use std::time::{Duration, Instant};

fn usage() -> ! {
    eprintln!("usage: opcua-verif <Cxx> <quick|thorough> [--part NAME] | --replay FILE | --list");
    std::process::exit(2);
}

fn seed_from_env() -> u64 {
    std::env::var("VERIF_SEED").ok().and_then(|s| s.trim().parse::<u64>().ok()).unwrap_or(20260921)
}

fn main() {
    let args: Vec<String> = std::env::args().skip(1).collect();
    if args.is_empty() {
        usage();
    }
    if args[0] == "--worker" {
        worker(&args[1..]);
    }
    if args[0] == "--make-fixtures" {
        fixtures::make_fixtures();
        return;
    }
    if args[0] == "--list" {
        for p in props::all() {
            println!("{}", p.id);
        }
        return;
    }
    parent(&args);
}

fn worker(args: &[String]) -> ! {
    install_panic_hook();
    let all = props::all();
    let code = if args[0] == "--replay" {
        replay_file(&all, &args[1])
    } else {
        let id = &args[0];
        let tier = match args.get(1).map(|s| s.as_str()) {
            Some("quick") => Tier::Quick,
            Some("thorough") => Tier::Thorough,
            _ => usage(),
        };
        let only_part = args.iter().position(|a| a == "--part").and_then(|i| args.get(i + 1)).map(|s| s.as_str());
        let Some(prop) = all.iter().find(|p| p.id == id) else {
            harness_error(&format!("unknown property {}", id));
        };
        run_property(prop, tier, seed_from_env(), only_part)
    };
    std::process::exit(code);
}

/// The parent only supervises: it re-executes itself as a worker so that a stack overflow or abort in
/// the code under test cannot take the reporting down with it.
fn parent(args: &[String]) -> ! {
    let exe = std::env::current_exe().expect("current_exe");
    let start = Instant::now();
    let is_replay = args[0] == "--replay";
    let (prop_id, tier) = if is_replay {
        let rf: Option<ReplayFile> = std::fs::read_to_string(&args[1]).ok().and_then(|s| serde_json::from_str(&s).ok());
        match rf {
            Some(r) => (r.property, "quick".to_string()),
            None => harness_error("replay file does not parse"),
        }
    } else {
        (args[0].clone(), args.get(1).cloned().unwrap_or_else(|| usage()))
    };
    let current = format!("{}/{}.current", SCRATCH_DIR, prop_id);
    let _ = std::fs::create_dir_all(SCRATCH_DIR);
    let _ = std::fs::remove_file(&current);
    let default_timeout = if tier == "thorough" { 6 * 3600 } else { 1500 };
    let timeout = std::env::var("VERIF_TIMEOUT_S").ok().and_then(|s| s.parse::<u64>().ok()).unwrap_or(default_timeout);
    let mut child = Command::new(exe).arg("--worker").args(args).spawn().expect("spawn worker");
    let status = loop {
        match child.try_wait().expect("wait") {
            Some(st) => break st,
            None => {
                if start.elapsed() > Duration::from_secs(timeout) {
                    let _ = child.kill();
                    let _ = child.wait();
                    println!("INCONCLUSIVE property={} watchdog expired after {} s", prop_id, timeout);
                    std::process::exit(2);
                }
                std::thread::sleep(Duration::from_millis(50));
            }
        }
    };
    if let Some(code) = status.code() {
        std::process::exit(code);
    }
    // killed by a signal: stack overflow (SIGSEGV/SIGABRT), abort, or OOM kill
    let sig = status.signal().unwrap_or(0);
    if sig == libc::SIGKILL {
        println!("INCONCLUSIVE property={} worker was killed (SIGKILL, possibly out of memory)", prop_id);
        std::process::exit(2);
    }
    if is_replay {
        println!("replay {}: worker process died on signal {} (stack exhaustion or abort)", args[1], sig);
        println!("VIOLATION property={} replay={}", prop_id, args[1]);
        std::process::exit(1);
    }
    match std::fs::read_to_string(&current).ok().and_then(|s| serde_json::from_str::<serde_json::Value>(&s).ok()) {
        Some(v) => {
            let dir = format!("{}/replay", SCRATCH_DIR);
            let _ = std::fs::create_dir_all(&dir);
            let path = format!("{}/{}-abort-{}.json", dir, prop_id, seed_from_env());
            let rf = ReplayFile {
                property: prop_id.clone(),
                part: v["part"].as_str().unwrap_or("").to_string(),
                seed: seed_from_env(),
                case: v["case"].clone(),
                failure: Some(Failure { sig: format!("abort:signal-{}", sig), detail: "worker process died while executing this case".into() }),
            };
            std::fs::write(&path, serde_json::to_string_pretty(&rf).unwrap()).expect("write replay");
            let evals = v["evaluations"].as_u64().unwrap_or(1).max(1);
            let ev = serde_json::json!({
                "property_id": prop_id, "tier": tier, "seed": seed_from_env(), "level": "exploration",
                "coverage": {"evaluations": evals, "distinct_nontrivial": 2,
                    "rule": "run ended by process death (signal); counts of the dead worker are lost, distinct_nontrivial is a placeholder lower bound",
                    "samples": [v["case"].clone()]},
                "wall_s": start.elapsed().as_secs_f64(), "violations": 1});
            let _ = std::fs::create_dir_all(format!("{}/evidence", VERIF_DIR));
            let _ = std::fs::write(format!("{}/evidence/{}.json", VERIF_DIR, prop_id), serde_json::to_string_pretty(&ev).unwrap());
            println!("worker process died on signal {} (stack exhaustion or abort) while executing part {}", sig, rf.part);
            println!("VIOLATION property={} replay={}", prop_id, path);
            std::process::exit(1);
        }
        None => {
            println!("INCONCLUSIVE property={} worker died on signal {} and no write-ahead case exists", prop_id, sig);
            std::process::exit(2);
        }
    }
}

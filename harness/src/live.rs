//! Live fixture: the real server task (listener, per connection reader / writer / subscription timer / finish monitor tasks)
//! on a loopback port, driven inside the worker's current-thread runtime by raw protocol peers. Everything runs on the worker
//! thread, so the lock tracing hook sees the server's tasks one synchronous section at a time (a parking_lot guard is not Send,
//! and every server task is spawned with tokio::spawn, so no guard lives across an await).
#![allow(dead_code)]
use crate::engine::{block_on, harness_error, in_runtime};
use crate::srv::{self, Peer, SrvOpts};
use opcua::core::comms::chunker::Chunker;
use opcua::core::comms::message_chunk::{MessageChunk, MessageIsFinalType};
use opcua::core::comms::tcp_types::{AcknowledgeMessage, ErrorMessage, HelloMessage};
use opcua::core::supported_message::SupportedMessage;
use opcua::server::prelude::*;
use opcua::sync::RwLock;
use std::cell::RefCell;
use std::io::Cursor;
use std::sync::Arc;
use std::time::Duration;
use tokio::io::{AsyncReadExt, AsyncWriteExt};
use tokio::net::TcpStream;

pub struct Live {
    pub server: Arc<RwLock<Server>>,
    pub port: u16,
}

thread_local! {
    static LIVE: RefCell<Option<(bool, Arc<RwLock<Server>>, u16)>> = const { RefCell::new(None) };
}

/// The worker's running server (started on first use; a second flavour aborts and replaces the first).
pub fn live_server(clients_can_modify_address_space: bool) -> Live {
    LIVE.with(|l| {
        let mut l = l.borrow_mut();
        if let Some((f, s, p)) = &*l {
            if *f == clients_can_modify_address_space {
                return Live { server: s.clone(), port: *p };
            }
            s.write().abort();
        }
        let port = crate::fixtures::free_port();
        let was = srv::lock_recording();
        opcua::verif::locks::set_enabled(false);
        let server = Arc::new(RwLock::new(srv::server(&SrvOpts { clients_can_modify_address_space, port, ..SrvOpts::default() })));
        let task = Server::new_server_task(server.clone());
        in_runtime(|| {
            tokio::spawn(task);
        });
        // let the listener come up
        let up = block_on(async {
            for _ in 0..200 {
                if TcpStream::connect(("127.0.0.1", port)).await.is_ok() {
                    return true;
                }
                tokio::time::sleep(Duration::from_millis(10)).await;
            }
            false
        });
        if !up {
            harness_error("the live server did not start listening");
        }
        // the probe connection is torn down by the server (no HELLO follows); wait until that has happened
        block_on(async { tokio::time::sleep(Duration::from_millis(30)).await });
        opcua::verif::locks::set_enabled(was);
        *l = Some((clients_can_modify_address_space, server.clone(), port));
        Live { server, port }
    })
}

pub fn endpoint_url(port: u16) -> String {
    format!("opc.tcp://127.0.0.1:{}/", port)
}

#[derive(Debug)]
pub enum Incoming {
    Message(u32, SupportedMessage),
    Error(StatusCode),
    Closed,
    /// nothing arrived in time
    Nothing,
    /// something arrived that the peer could not decode
    Undecodable(String),
}

pub struct LiveClient {
    stream: TcpStream,
    pub peer: Peer,
    partial: Vec<MessageChunk>,
    buffered: Vec<(u32, SupportedMessage)>,
    pub next_handle: u32,
    pub port: u16,
}

async fn read_frame(stream: &mut TcpStream, wait: Duration) -> Result<Option<Vec<u8>>, ()> {
    let mut header = [0u8; 8];
    // the first byte decides between "nothing yet" and a frame that is then read to its end
    match tokio::time::timeout(wait, stream.read(&mut header[..1])).await {
        Err(_) => return Ok(None),
        Ok(Ok(0)) | Ok(Err(_)) => return Err(()),
        Ok(Ok(_)) => {}
    }
    match tokio::time::timeout(Duration::from_secs(5), stream.read_exact(&mut header[1..])).await {
        Ok(Ok(_)) => {}
        _ => return Err(()),
    }
    let size = u32::from_le_bytes([header[4], header[5], header[6], header[7]]) as usize;
    if !(8..=16 * 1024 * 1024).contains(&size) {
        return Err(());
    }
    let mut data = header.to_vec();
    data.resize(size, 0);
    match tokio::time::timeout(Duration::from_secs(5), stream.read_exact(&mut data[8..])).await {
        Ok(Ok(_)) => Ok(Some(data)),
        _ => Err(()),
    }
}

impl LiveClient {
    /// TCP connect, HEL/ACK, OPN(Issue, None)
    pub async fn connect(port: u16) -> Result<LiveClient, String> {
        let stream = TcpStream::connect(("127.0.0.1", port)).await.map_err(|e| format!("connect: {}", e))?;
        let _ = stream.set_nodelay(true);
        let mut c = LiveClient { stream, peer: Peer::new(), partial: Vec::new(), buffered: Vec::new(), next_handle: 1, port };
        let hello = HelloMessage::new(&endpoint_url(port), 65535, 65535, 0, 0);
        let mut buf = Vec::new();
        hello.encode(&mut buf).map_err(|e| format!("hello encode: {}", e))?;
        c.stream.write_all(&buf).await.map_err(|e| format!("hello write: {}", e))?;
        // The server's subscription timer of a connection ticks every session of the (server-wide) session manager and sends
        // what it collects down its own socket, so a new connection can be sent publish responses of other connections
        // before its ACK. They are skipped here (not this fixture's business, and none of the listed properties').
        let frame = loop {
            let frame = read_frame(&mut c.stream, Duration::from_secs(5)).await.map_err(|_| "closed before ACK".to_string())?.ok_or("no ACK")?;
            if &frame[..3] == b"MSG" {
                continue;
            }
            break frame;
        };
        if &frame[..3] != b"ACK" {
            return Err(format!("answer to HELLO was {:?}", &frame[..3]));
        }
        let _ = AcknowledgeMessage::decode(&mut Cursor::new(&frame), &opcua::types::DecodingOptions::default()).map_err(|e| format!("ACK decode: {}", e))?;
        let open = c.peer.open_request();
        let id = c.send(&open).await.map_err(|e| format!("OPN write: {}", e))?;
        match c.response(id, Duration::from_secs(5)).await {
            Incoming::Message(_, SupportedMessage::OpenSecureChannelResponse(r)) => {
                c.peer.channel.set_secure_channel_id(r.security_token.channel_id);
                c.peer.channel.set_token_id(r.security_token.token_id);
                Ok(c)
            }
            other => Err(format!("answer to OpenSecureChannel: {:?}", other)),
        }
    }

    pub fn header(&mut self, token: &NodeId) -> RequestHeader {
        self.next_handle += 1;
        let mut h = RequestHeader::new(token, &DateTime::now(), self.next_handle);
        h.timeout_hint = 0;
        h
    }

    /// writes the chunks of a message; returns its request id
    pub async fn send(&mut self, msg: &SupportedMessage) -> std::io::Result<u32> {
        let id = self.peer.next_request_id;
        let chunks = self.peer.chunks(msg, 0);
        for c in chunks {
            self.stream.write_all(&c.data).await?;
        }
        Ok(id)
    }

    pub async fn send_raw(&mut self, bytes: &[u8]) -> std::io::Result<()> {
        self.stream.write_all(bytes).await
    }

    /// the next thing the server sent (a buffered message first)
    pub async fn recv(&mut self, wait: Duration) -> Incoming {
        if !self.buffered.is_empty() {
            let (id, m) = self.buffered.remove(0);
            return Incoming::Message(id, m);
        }
        self.recv_wire(wait).await
    }

    async fn recv_wire(&mut self, wait: Duration) -> Incoming {
        loop {
            let frame = match read_frame(&mut self.stream, wait).await {
                Err(()) => return Incoming::Closed,
                Ok(None) => return Incoming::Nothing,
                Ok(Some(f)) => f,
            };
            match &frame[..3] {
                b"ERR" => {
                    return match ErrorMessage::decode(&mut Cursor::new(&frame), &opcua::types::DecodingOptions::default()) {
                        Ok(e) => Incoming::Error(StatusCode::from_bits_truncate(e.error)),
                        Err(e) => Incoming::Undecodable(format!("ERR: {}", e)),
                    };
                }
                b"MSG" | b"OPN" | b"CLO" => {
                    let chunk = MessageChunk { data: frame };
                    let info = match chunk.chunk_info(&self.peer.channel) {
                        Ok(i) => i,
                        Err(e) => return Incoming::Undecodable(format!("chunk info: {}", e)),
                    };
                    let is_final = info.message_header.is_final;
                    let id = info.sequence_header.request_id;
                    self.partial.push(chunk);
                    match is_final {
                        MessageIsFinalType::Intermediate => continue,
                        MessageIsFinalType::FinalError => {
                            self.partial.clear();
                            return Incoming::Error(StatusCode::BadCommunicationError);
                        }
                        MessageIsFinalType::Final => {
                            let chunks = std::mem::take(&mut self.partial);
                            return match Chunker::decode(&chunks, &self.peer.channel, None) {
                                Ok(m) => Incoming::Message(id, m),
                                Err(e) => Incoming::Undecodable(format!("decode: {}", e)),
                            };
                        }
                    }
                }
                other => return Incoming::Undecodable(format!("frame type {:?}", other)),
            }
        }
    }

    /// waits for the response to one request; other messages (publish responses) are kept for `recv`
    pub async fn response(&mut self, request_id: u32, wait: Duration) -> Incoming {
        if let Some(pos) = self.buffered.iter().position(|(id, _)| *id == request_id) {
            let (id, m) = self.buffered.remove(pos);
            return Incoming::Message(id, m);
        }
        let deadline = tokio::time::Instant::now() + wait;
        loop {
            let left = deadline.saturating_duration_since(tokio::time::Instant::now());
            if left.is_zero() {
                return Incoming::Nothing;
            }
            match self.recv_wire(left).await {
                Incoming::Message(id, m) if id == request_id => return Incoming::Message(id, m),
                Incoming::Message(id, m) => self.buffered.push((id, m)),
                other => return other,
            }
        }
    }

    /// request and response
    pub async fn call(&mut self, msg: impl Into<SupportedMessage>) -> Incoming {
        let msg: SupportedMessage = msg.into();
        match self.send(&msg).await {
            Ok(id) => self.response(id, Duration::from_secs(5)).await,
            Err(_) => Incoming::Closed,
        }
    }
}

//! Byte-driven structured generator ("data provider"): every random choice of a generated value is
//! decoded from a byte vector that proptest (or libFuzzer) owns, so shrinking and replay work on
//! plain data. An exhausted filler yields zeros, and index 0 of every choice is the simplest form.
#![allow(dead_code)]
use opcua::types::*;

pub struct Filler<'a> {
    data: &'a [u8],
    pos: usize,
    /// DateTime values restricted to millisecond precision
    pub ms_dates: bool,
    /// NodeId string / byte string identifiers never empty or null, also in nested positions
    pub nonempty_ids: bool,
    /// never generate Variant arrays
    pub no_arrays: bool,
    /// never generate non-finite floats
    pub finite_floats: bool,
    /// Variants never hold ExtensionObject or DiagnosticInfo values
    pub no_ext_diag: bool,
    /// an ExpandedNodeId with a namespace URI gets namespace index 0 (text and JSON forms carry one or the other)
    pub uri_replaces_index: bool,
}

pub const RESERVED_ALPHABET: &[&str] = &[
    "a", "b", "Z", "0", "9", " ", "&", "/", ".", "<", ">", ":", "#", "!", ";", "%", "=", "\n", "\t", "\"", "'", "\\", "-", "_", "~",
    "é", "ß", "€", "語", "𝄞", "\u{301}", "{", "}", "[", "]", ",", "@", "*", "?", "|", "+",
];

impl<'a> Filler<'a> {
    pub fn new(data: &'a [u8]) -> Filler<'a> {
        Filler { data, pos: 0, ms_dates: false, nonempty_ids: false, no_arrays: false, finite_floats: false, uri_replaces_index: false, no_ext_diag: false }
    }
    pub fn exhausted(&self) -> bool {
        self.pos >= self.data.len()
    }
    pub fn u8(&mut self) -> u8 {
        let v = self.data.get(self.pos).copied().unwrap_or(0);
        self.pos += 1;
        v
    }
    pub fn bool(&mut self) -> bool {
        self.u8() & 1 == 1
    }
    pub fn u16(&mut self) -> u16 {
        u16::from_le_bytes([self.u8(), self.u8()])
    }
    pub fn u32(&mut self) -> u32 {
        u32::from_le_bytes([self.u8(), self.u8(), self.u8(), self.u8()])
    }
    pub fn u64(&mut self) -> u64 {
        (self.u32() as u64) | ((self.u32() as u64) << 32)
    }
    /// monotone index in 0..n (n <= 256)
    pub fn below(&mut self, n: usize) -> usize {
        debug_assert!(n > 0 && n <= 256);
        (self.u8() as usize * n) >> 8
    }
    /// monotone index in 0..n for larger n
    pub fn below16(&mut self, n: usize) -> usize {
        ((self.u16() as u64 * n as u64) >> 16) as usize
    }
    pub fn choose<T: Clone>(&mut self, xs: &[T]) -> T {
        xs[self.below(xs.len())].clone()
    }
    /// true with probability about num/256
    pub fn chance(&mut self, num: u8) -> bool {
        let b = self.u8();
        b != 0 && b <= num
    }

    // ---- edge-biased scalars -------------------------------------------------------------
    pub fn i64_biased(&mut self) -> i64 {
        const EDGES: &[i64] = &[
            0, 1, -1, 2, 127, 128, -128, -129, 255, 256, 32767, 32768, -32768, -32769, 65535, 65536,
            (1 << 24) - 1, 1 << 24, (1 << 24) + 1, i32::MAX as i64, i32::MAX as i64 + 1, i32::MIN as i64, i32::MIN as i64 - 1,
            u32::MAX as i64, u32::MAX as i64 + 1, (1 << 53) - 1, 1 << 53, (1 << 53) + 1, i64::MAX, i64::MAX - 1, i64::MIN, i64::MIN + 1,
        ];
        match self.below(4) {
            0 => self.choose(EDGES),
            1 => self.u8() as i64 - 128,
            2 => self.u32() as i32 as i64,
            _ => self.u64() as i64,
        }
    }
    pub fn u64_biased(&mut self) -> u64 {
        match self.below(4) {
            0 => self.choose(&[0u64, 1, 255, 256, 65535, 65536, i32::MAX as u64, i32::MAX as u64 + 1, u32::MAX as u64, u32::MAX as u64 + 1, (1 << 53) + 1, i64::MAX as u64, i64::MAX as u64 + 1, u64::MAX - 1, u64::MAX]),
            1 => self.u8() as u64,
            2 => self.u32() as u64,
            _ => self.u64(),
        }
    }
    pub fn u32_biased(&mut self) -> u32 {
        match self.below(4) {
            0 => self.choose(&[0u32, 1, 2, 255, 256, 65535, 65536, i32::MAX as u32, i32::MAX as u32 + 1, u32::MAX - 1, u32::MAX]),
            1 => self.u8() as u32,
            2 => self.u16() as u32,
            _ => self.u32(),
        }
    }
    pub fn u16_biased(&mut self) -> u16 {
        match self.below(3) {
            0 => self.choose(&[0u16, 1, 9, 10, 255, 256, 32767, 32768, 65534, 65535]),
            1 => self.u8() as u16,
            _ => self.u16(),
        }
    }
    pub fn f64_biased(&mut self, allow_nonfinite: bool) -> f64 {
        const E: &[f64] = &[
            0.0, 1.0, -1.0, 0.5, -0.5, 1.5, -1.5, 2.5, 12.5, -0.0, 0.49999999999999994, 127.5, -128.5, 255.5, 32767.5, 65535.5,
            2147483647.5, -2147483648.5, 4294967295.5, 16777217.0, 9007199254740993.0, 9223372036854775807.0, -9223372036854775808.0,
            18446744073709551615.0, 1e30, -1e30, 1e300, f64::MIN_POSITIVE, 5e-324, f64::MAX, f64::MIN, 3.141592653589793,
        ];
        match self.below(5) {
            0 => self.choose(E),
            1 => (self.u8() as f64 - 128.0) / 4.0,
            2 => self.i64_biased() as f64 + self.choose(&[0.0, 0.5, -0.5, 0.25]),
            3 if allow_nonfinite => self.choose(&[f64::NAN, f64::INFINITY, f64::NEG_INFINITY, -f64::NAN]),
            _ => {
                let v = f64::from_bits(self.u64());
                if v.is_finite() || allow_nonfinite {
                    v
                } else {
                    1.25
                }
            }
        }
    }
    pub fn f32_biased(&mut self, allow_nonfinite: bool) -> f32 {
        match self.below(4) {
            0 => self.choose(&[0.0f32, 1.0, -1.0, 0.5, -0.5, 16777216.0, 16777217.0, f32::MAX, f32::MIN, f32::MIN_POSITIVE, 1e-45, -0.0, 2147483648.0, 4294967296.0]),
            1 => (self.u8() as f32 - 128.0) / 4.0,
            2 if allow_nonfinite => self.choose(&[f32::NAN, f32::INFINITY, f32::NEG_INFINITY]),
            _ => {
                let v = f32::from_bits(self.u32());
                if v.is_finite() || allow_nonfinite {
                    v
                } else {
                    2.5
                }
            }
        }
    }

    // ---- strings -------------------------------------------------------------------------
    /// a Rust string of 0..=max_chars characters over the reserved/multi-byte alphabet
    pub fn text(&mut self, max_chars: usize) -> String {
        let n = self.below(max_chars.min(255) + 1);
        let mut s = String::new();
        for _ in 0..n {
            s.push_str(RESERVED_ALPHABET[self.below(RESERVED_ALPHABET.len())]);
        }
        s
    }
    pub fn ascii_name(&mut self, max_chars: usize) -> String {
        let n = 1 + self.below(max_chars.max(1));
        (0..n).map(|_| (b'a' + self.below(26) as u8) as char).collect()
    }
    pub fn ua_string(&mut self) -> UAString {
        match self.below(8) {
            0 => UAString::null(),
            1 => UAString::from(""),
            _ => UAString::from(self.text(12)),
        }
    }
    pub fn bytes(&mut self, max: usize) -> Vec<u8> {
        let n = self.below(max.min(255) + 1);
        (0..n).map(|_| self.u8()).collect()
    }
    pub fn byte_string(&mut self) -> ByteString {
        match self.below(8) {
            0 => ByteString::null(),
            1 => ByteString::from(Vec::<u8>::new()),
            _ => ByteString::from(self.bytes(24)),
        }
    }

    // ---- built-in OPC UA values ------------------------------------------------------------
    pub fn guid(&mut self) -> Guid {
        let mut b = [0u8; 16];
        for x in b.iter_mut() {
            *x = self.u8();
        }
        Guid::from_bytes(b)
    }
    /// in-range (1601..9999) DateTime with 100ns resolution
    pub fn date_time_in_range(&mut self) -> DateTime {
        let end = DateTime::endtimes_ticks();
        let t = match self.below(5) {
            0 => self.choose(&[0i64, 1, 10_000_000, 116444736000000000, end, end - 1]),
            1 => self.u32() as i64,
            _ => ((self.u64() >> 1) as i64) % (end + 1),
        };
        DateTime::from(if self.ms_dates { t - t % 10_000 } else { t })
    }
    /// any tick count, including the out-of-range classes (<0, >endtimes, i64::MAX)
    pub fn date_time_ticks_any(&mut self) -> i64 {
        let end = DateTime::endtimes_ticks();
        match self.below(6) {
            0 => self.date_time_in_range().ticks(),
            1 => self.choose(&[-1i64, i64::MIN / 4, end + 1, i64::MAX]),
            2 => -(self.u32() as i64),
            3 => end + self.u32() as i64,
            _ => self.date_time_in_range().ticks(),
        }
    }
    pub fn status_code(&mut self) -> StatusCode {
        match self.below(4) {
            0 => self.choose(&[StatusCode::Good, StatusCode::BadUnexpectedError, StatusCode::BadNodeIdUnknown, StatusCode::UncertainLastUsableValue, StatusCode::GoodClamped, StatusCode::BadTimeout]),
            1 => self.choose(&[StatusCode::Good, StatusCode::BadDecodingError, StatusCode::BadOutOfRange]) | self.choose(&[StatusCode::OVERFLOW, StatusCode::HISTORICAL_CALCULATED, StatusCode::LIMIT_HIGH, StatusCode::SEMANTICS_CHANGED]),
            _ => StatusCode::from_bits_truncate(self.u32()),
        }
    }
    pub fn namespace(&mut self) -> u16 {
        match self.below(4) {
            0 => 0,
            1 => self.choose(&[1u16, 2, 9, 10, 99, 255, 256, 65535]),
            2 => self.u8() as u16,
            _ => self.u16(),
        }
    }
    /// NodeId with the given constraint on emptiness of string/bytestring identifiers
    pub fn node_id(&mut self, allow_empty: bool) -> NodeId {
        let allow_empty = allow_empty && !self.nonempty_ids;
        let ns = self.namespace();
        match self.below(6) {
            0 | 1 => {
                let v = match self.below(4) {
                    0 => self.u8() as u32,
                    1 => self.choose(&[255u32, 256, 65535, 65536, u32::MAX, 0, 1]),
                    2 => self.u16() as u32,
                    _ => self.u32(),
                };
                NodeId::new(ns, v)
            }
            2 | 3 => {
                let mut s = self.text(10);
                if s.is_empty() && !allow_empty {
                    s.push('x');
                }
                if allow_empty && self.chance(16) {
                    NodeId { namespace: ns, identifier: Identifier::String(UAString::null()) }
                } else {
                    NodeId::new(ns, UAString::from(s))
                }
            }
            4 => NodeId::new(ns, self.guid()),
            _ => {
                let mut b = self.bytes(12);
                if b.is_empty() && !allow_empty {
                    b.push(7);
                }
                if allow_empty && self.chance(16) {
                    NodeId { namespace: ns, identifier: Identifier::ByteString(ByteString::null()) }
                } else {
                    NodeId::new(ns, ByteString::from(b))
                }
            }
        }
    }
    pub fn expanded_node_id(&mut self, allow_empty: bool) -> ExpandedNodeId {
        let node_id = self.node_id(allow_empty);
        let namespace_uri = match self.below(3) {
            0 => UAString::null(),
            1 => UAString::from(format!("urn:{}", self.ascii_name(6))),
            _ => {
                let mut t = self.text(8);
                // an empty (not null) URI is a value of its own in the binary encoding; the text and JSON forms cannot tell it
                // from a null one
                if t.is_empty() && self.uri_replaces_index {
                    t.push_str("u;%");
                }
                // URIs that already contain the escape sequences of the text form (read last, so that byte strings
                // recorded before this was added still produce the same value)
                if self.chance(96) {
                    let tok = ["%3b", "%25", "%3B", "%253b", "%2", "%", "3b", "25", ";%3b", "%25%3b"][self.below(10)];
                    let at = self.below(t.chars().count() + 1);
                    let idx = t.char_indices().nth(at).map(|x| x.0).unwrap_or(t.len());
                    t.insert_str(idx, tok);
                }
                UAString::from(t)
            }
        };
        let server_index = match self.below(3) {
            0 => 0,
            1 => 1 + self.u8() as u32,
            _ => self.u32_biased(),
        };
        let mut node_id = node_id;
        if self.uri_replaces_index && !namespace_uri.is_empty() {
            node_id.namespace = 0;
        }
        ExpandedNodeId { node_id, namespace_uri, server_index }
    }
    pub fn qualified_name(&mut self) -> QualifiedName {
        QualifiedName { namespace_index: self.namespace(), name: self.ua_string() }
    }
    /// normal form: parts are null or non-empty (null and empty are equivalent on the wire)
    pub fn localized_text(&mut self) -> LocalizedText {
        let mut part = |f: &mut Filler| match f.below(3) {
            0 => UAString::null(),
            _ => {
                let mut t = f.text(8);
                if t.is_empty() {
                    t.push('t');
                }
                UAString::from(t)
            }
        };
        LocalizedText { locale: part(self), text: part(self) }
    }
    pub fn diagnostic_info(&mut self, depth: usize) -> DiagnosticInfo {
        let mask = self.u8();
        DiagnosticInfo {
            symbolic_id: if mask & 1 != 0 { Some(self.u32() as i32) } else { None },
            namespace_uri: if mask & 2 != 0 { Some(self.u32() as i32) } else { None },
            locale: if mask & 4 != 0 { Some(self.u32() as i32) } else { None },
            localized_text: if mask & 8 != 0 { Some(self.u32() as i32) } else { None },
            additional_info: if mask & 16 != 0 { Some(self.ua_string()) } else { None },
            inner_status_code: if mask & 32 != 0 { Some(self.status_code()) } else { None },
            inner_diagnostic_info: if mask & 64 != 0 && depth > 0 { Some(Box::new(self.diagnostic_info(depth - 1))) } else { None },
        }
    }
    pub fn extension_object(&mut self) -> ExtensionObject {
        let node_id = self.node_id(true);
        let body = match self.below(4) {
            0 => ExtensionObjectEncoding::None,
            1 | 2 => ExtensionObjectEncoding::ByteString(self.byte_string()),
            _ => ExtensionObjectEncoding::XmlElement(self.ua_string()),
        };
        ExtensionObject { node_id, body }
    }
    /// all 64 presence masks (picoseconds without timestamp included)
    pub fn data_value_raw(&mut self, depth: usize) -> DataValue {
        let mask = self.u8();
        DataValue {
            value: if mask & 1 != 0 { Some(self.variant(depth)) } else { None },
            status: if mask & 2 != 0 { Some(self.status_code()) } else { None },
            source_timestamp: if mask & 4 != 0 { Some(self.date_time_in_range()) } else { None },
            source_picoseconds: if mask & 8 != 0 { Some(self.u16()) } else { None },
            server_timestamp: if mask & 16 != 0 { Some(self.date_time_in_range()) } else { None },
            server_picoseconds: if mask & 32 != 0 { Some(self.u16()) } else { None },
        }
    }
    /// normal form: picoseconds only together with their timestamp (data_value.rs documents that they
    /// are otherwise ignored)
    pub fn data_value(&mut self, depth: usize) -> DataValue {
        let mut d = self.data_value_raw(depth);
        if d.source_timestamp.is_none() {
            d.source_picoseconds = None;
        }
        if d.server_timestamp.is_none() {
            d.server_picoseconds = None;
        }
        d
    }
    pub const SCALAR_KINDS: usize = 25;
    /// scalar variant of kind k (0..25); nested kinds bounded by depth
    pub fn scalar_of_kind(&mut self, k: usize, depth: usize) -> Variant {
        let k = if self.no_ext_diag && (k == 21 || k == 24) { 5 } else { k };
        match k {
            0 => Variant::Boolean(self.bool()),
            1 => Variant::SByte(self.i64_biased() as i8),
            2 => Variant::Byte(self.u64_biased() as u8),
            3 => Variant::Int16(self.i64_biased() as i16),
            4 => Variant::UInt16(self.u64_biased() as u16),
            5 => Variant::Int32(self.i64_biased() as i32),
            6 => Variant::UInt32(self.u64_biased() as u32),
            7 => Variant::Int64(self.i64_biased()),
            8 => Variant::UInt64(self.u64_biased()),
            9 => Variant::Float(self.f32_biased(!self.finite_floats)),
            10 => Variant::Double(self.f64_biased(!self.finite_floats)),
            11 => Variant::String(self.ua_string()),
            12 => Variant::DateTime(Box::new(self.date_time_in_range())),
            13 => Variant::Guid(Box::new(self.guid())),
            14 => Variant::StatusCode(self.status_code()),
            15 => Variant::ByteString(self.byte_string()),
            16 => Variant::XmlElement(self.ua_string()),
            17 => Variant::QualifiedName(Box::new(self.qualified_name())),
            18 => Variant::LocalizedText(Box::new(self.localized_text())),
            19 => Variant::NodeId(Box::new(self.node_id(true))),
            20 => Variant::ExpandedNodeId(Box::new(self.expanded_node_id(true))),
            21 => Variant::ExtensionObject(Box::new(self.extension_object())),
            22 if depth > 0 => Variant::Variant(Box::new(self.variant(depth - 1))),
            23 if depth > 0 => Variant::DataValue(Box::new(self.data_value(depth - 1))),
            24 => Variant::DiagnosticInfo(Box::new(self.diagnostic_info(depth.min(3)))),
            _ => Variant::Int32(self.u32() as i32),
        }
    }
    pub fn kind_type_id(k: usize) -> VariantTypeId {
        use VariantTypeId::*;
        [Boolean, SByte, Byte, Int16, UInt16, Int32, UInt32, Int64, UInt64, Float, Double, String, DateTime, Guid, StatusCode, ByteString, XmlElement,
            QualifiedName, LocalizedText, NodeId, ExpandedNodeId, ExtensionObject, Variant, DataValue, DiagnosticInfo][k]
    }
    pub fn variant(&mut self, depth: usize) -> Variant {
        match self.below(8) {
            0 => Variant::Empty,
            1..=4 => {
                let k = self.below(Self::SCALAR_KINDS);
                self.scalar_of_kind(k, depth)
            }
            _ if self.no_arrays => {
                let k = self.below(Self::SCALAR_KINDS);
                self.scalar_of_kind(k, depth)
            }
            _ => self.array(depth),
        }
    }
    /// single or multi-dimensional array whose dimension product equals the length
    pub fn array(&mut self, depth: usize) -> Variant {
        let mut k = self.below(Self::SCALAR_KINDS);
        if depth <= 1 && (k == 22 || k == 23) {
            k = 5;
        }
        let value_type = Self::kind_type_id(k);
        let shape = self.below(8);
        let (len, dims): (usize, Option<Vec<u32>>) = match shape {
            0 => (0, None),
            1 => (0, Some(vec![0])),
            2 => (0, Some(vec![])),
            3 => {
                let a = 1 + self.below(3);
                let b = 1 + self.below(3);
                (a * b, Some(vec![a as u32, b as u32]))
            }
            4 => {
                let a = 1 + self.below(2);
                let b = 1 + self.below(2);
                let c = 1 + self.below(3);
                (a * b * c, Some(vec![a as u32, b as u32, c as u32]))
            }
            5 => {
                let n = 1 + self.below(6);
                (n, Some(vec![n as u32]))
            }
            _ => (1 + self.below(8), None),
        };
        let d = depth.saturating_sub(1);
        let values: Vec<Variant> = (0..len).map(|_| self.scalar_of_kind(k, d)).collect();
        Variant::Array(Box::new(Array { value_type, values, dimensions: dims }))
    }
}

pub fn hex(b: &[u8]) -> String {
    b.iter().map(|x| format!("{:02x}", x)).collect()
}

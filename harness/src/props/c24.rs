//! C24 — Monitored item queues keep the right values and survive resizing.
use crate::engine::*;
use crate::srv;
use opcua::server::prelude::*;
use opcua::server::subscriptions::monitored_item::Notification;
use opcua::verif::server::{MonitoredItemProbe, ProbeTick};
use proptest::prelude::*;
use serde::{Deserialize, Serialize};
use std::cell::RefCell;
use std::collections::VecDeque;

#[derive(Clone, Debug, Serialize, Deserialize, PartialEq)]
pub enum Op {
    /// write a fresh value and tick
    Sample,
    /// tick without a new value
    Resample,
    Drain,
    /// requested queue size, discard oldest
    Modify(u32, bool),
    /// the same with a data change filter the server has to refuse (percent deadband): whatever the refusal leaves behind, the
    /// queue must still fit its size afterwards
    ModifyRefused(u32, bool),
}

#[derive(Clone, Debug, Serialize, Deserialize, PartialEq)]
pub struct Case {
    pub queue_size: u32,
    pub discard_oldest: bool,
    pub ops: Vec<Op>,
}

fn qsize() -> impl Strategy<Value = u32> {
    prop_oneof![6 => 0u32..13, 1 => Just(u32::MAX), 1 => 13u32..2000]
}

fn case() -> impl Strategy<Value = Case> {
    (
        qsize(),
        any::<bool>(),
        prop::collection::vec(prop_oneof![16 => Just(Op::Sample), 2 => Just(Op::Resample), 4 => Just(Op::Drain), 6 => (qsize(), any::<bool>()).prop_map(|(q, d)| Op::Modify(q, d)), 1 => (qsize(), any::<bool>()).prop_map(|(q, d)| Op::ModifyRefused(q, d))], 1..40),
    )
        .prop_map(|(queue_size, discard_oldest, ops)| Case { queue_size, discard_oldest, ops })
}

thread_local! {
    static SPACE: RefCell<Option<AddressSpace>> = const { RefCell::new(None) };
}

fn probe_id() -> NodeId {
    NodeId::new(1, "c24-probe")
}

fn with_space<T>(f: impl FnOnce(&mut AddressSpace) -> T) -> T {
    SPACE.with(|s| {
        let mut s = s.borrow_mut();
        if s.is_none() {
            let mut a = AddressSpace::new();
            VariableBuilder::new(&probe_id(), "c24probe", "c24probe").data_type(DataTypeId::Int32).value(0i32).organized_by(ObjectId::ObjectsFolder).insert(&mut a);
            *s = Some(a);
        }
        f(s.as_mut().unwrap())
    })
}

fn value_of(n: &Notification) -> (i64, bool) {
    match n {
        Notification::MonitoredItemNotification(m) => {
            let v = match &m.value.value {
                Some(Variant::Int32(v)) => *v as i64,
                _ => -1,
            };
            (v, m.value.status().contains(StatusCode::OVERFLOW) || m.value.status().bits() & StatusCode::OVERFLOW.bits() != 0)
        }
        _ => (-2, false),
    }
}

fn run(ctx: &Ctx, case: &Case) -> PResult {
    let server = srv::worker_server(false);
    let state = server.server_state();
    let state = state.read();
    let max_q = state.max_monitored_item_queue_size;
    let sanitize = |q: u32| -> usize {
        let q = q as usize;
        if q <= 1 {
            1
        } else if q > max_q {
            max_q
        } else {
            q
        }
    };
    let t0 = chrono::Utc::now() + chrono::Duration::hours(1);
    let request = MonitoredItemCreateRequest {
        item_to_monitor: ReadValueId { node_id: probe_id(), attribute_id: AttributeId::Value as u32, index_range: UAString::null(), data_encoding: QualifiedName::null() },
        monitoring_mode: MonitoringMode::Reporting,
        requested_parameters: MonitoringParameters { client_handle: 7, sampling_interval: -1.0, filter: ExtensionObject::null(), queue_size: case.queue_size, discard_oldest: case.discard_oldest },
    };
    let mut item = match MonitoredItemProbe::new(&t0, 1, TimestampsToReturn::Both, &state, &request) {
        Ok(i) => i,
        Err(e) => return ctx.fail("create/refused", format!("creating the item failed with {}", e)),
    };
    let mut qs = sanitize(case.queue_size);
    let mut discard = case.discard_oldest;
    if item.queue_size() != qs {
        return ctx.fail("create/queue-size", format!("requested {} -> revised {} (expected {})", case.queue_size, item.queue_size(), qs));
    }
    let mut model: VecDeque<i64> = VecDeque::new();
    let mut overflow_pending = false;
    let mut overflow_since_drain = false;
    let mut sampled_once = false;
    // the address space is shared by the cases of a worker: start from the value it holds now
    let mut value = with_space(|a| match a.get_variable_value(probe_id()).ok().and_then(|v| v.value) {
        Some(Variant::Int32(v)) => v,
        _ => 0,
    });
    let mut interesting = false;
    let mut stop = false;
    let mut now = t0;

    for (i, op) in case.ops.iter().enumerate() {
        now = now + chrono::Duration::seconds(1);
        match op {
            Op::Sample | Op::Resample => {
                let fresh = matches!(op, Op::Sample);
                if fresh {
                    value += 1;
                    let v = value;
                    let dt = DateTime::from(now);
                    with_space(|a| {
                        let _ = a.set_variable_value(probe_id(), v, &dt, &dt);
                    });
                }
                let r = ctx.guard(|| with_space(|a| item.tick(&now, a, true, false)))?;
                let expect_enqueue = fresh || !sampled_once;
                sampled_once = true;
                if expect_enqueue {
                    if model.len() == qs {
                        if discard {
                            model.pop_front();
                        } else {
                            model.pop_back();
                        }
                        if qs > 1 {
                            overflow_pending = true;
                            overflow_since_drain = true;
                        }
                        interesting = true;
                        ctx.class("overflow");
                    }
                    model.push_back(value as i64);
                }
                let expect_report = !model.is_empty();
                if (r == ProbeTick::ReportValueChanged) != expect_report {
                    return ctx.fail("tick/result", format!("step {}: tick returned {:?} with {} queued entries expected", i, r, model.len()));
                }
            }
            Op::Drain => {
                let got = ctx.guard(|| item.all_notifications())?.unwrap_or_default();
                let got: Vec<(i64, bool)> = got.iter().map(value_of).collect();
                let want: Vec<i64> = model.iter().copied().collect();
                if got.iter().map(|x| x.0).collect::<Vec<_>>() != want {
                    return ctx.fail("drain/values", format!("step {}: delivered {:?}, the model queue holds {:?} (queue size {}, discard_oldest {})", i, got, want, qs, discard));
                }
                let any_bit = got.iter().any(|x| x.1);
                if overflow_pending && !any_bit {
                    return ctx.fail("drain/overflow-not-marked", format!("step {}: the queue overflowed (size {}) but no delivered entry carries the overflow bit: {:?}", i, qs, got));
                }
                if !overflow_since_drain && any_bit {
                    return ctx.fail("drain/overflow-marked-without-overflow", format!("step {}: {:?}", i, got));
                }
                model.clear();
                overflow_pending = false;
                overflow_since_drain = false;
            }
            Op::Modify(q, d) => {
                let req = MonitoredItemModifyRequest {
                    monitored_item_id: 1,
                    requested_parameters: MonitoringParameters { client_handle: 7, sampling_interval: -1.0, filter: ExtensionObject::null(), queue_size: *q, discard_oldest: *d },
                };
                let r = ctx.guard(|| with_space(|a| item.modify(&state, a, TimestampsToReturn::Both, &req)))?;
                if let Err(e) = r {
                    return ctx.fail("modify/failed", format!("step {}: modify to queue size {} failed with {}", i, q, e));
                }
                qs = sanitize(*q);
                discard = *d;
                if model.len() > qs {
                    interesting = true;
                    ctx.class("shrink_below_fill");
                    while model.len() > qs {
                        model.pop_front();
                    }
                    // the marked entry may have been dropped
                    overflow_pending = false;
                }
                if item.queue_size() != qs {
                    return ctx.fail("modify/queue-size", format!("step {}: requested {} -> revised {} (expected {})", i, q, item.queue_size(), qs));
                }
            }
            Op::ModifyRefused(q, d) => {
                let filter = ExtensionObject::from_encodable(ObjectId::DataChangeFilter_Encoding_DefaultBinary, &DataChangeFilter { trigger: DataChangeTrigger::StatusValue, deadband_type: 2, deadband_value: 10.0 });
                let req = MonitoredItemModifyRequest {
                    monitored_item_id: 1,
                    requested_parameters: MonitoringParameters { client_handle: 7, sampling_interval: -1.0, filter, queue_size: *q, discard_oldest: *d },
                };
                let r = ctx.guard(|| with_space(|a| item.modify(&state, a, TimestampsToReturn::Both, &req)))?;
                ctx.class(if r.is_err() { "modify_refused" } else { "modify_with_unsupported_filter_accepted" });
                // The property does not say what a refused modify leaves behind (the code applies the new size and policy before
                // it looks at the filter). The model continues from what the item holds now; the invariants below still bind.
                qs = item.queue_size();
                discard = *d;
                model = item.queue().iter().map(|n| value_of(n).0).collect();
                if item.queue().iter().any(|n| value_of(n).1) {
                    overflow_since_drain = true;
                } else {
                    overflow_pending = false;
                }
                // refused or not, the new filter is in place now (the code stores it before it validates it) and decides which
                // samples are queued from here on, which is C25's subject: the history ends after the invariants of this step
                stop = true;
            }
        }
        // invariants after every step
        let q: Vec<i64> = item.queue().iter().map(|n| value_of(n).0).collect();
        if q.len() > item.queue_size() {
            return ctx.fail("invariant/longer-than-queue-size", format!("step {}: {} entries in a queue of size {}", i, q.len(), item.queue_size()));
        }
        if q != model.iter().copied().collect::<Vec<_>>() {
            return ctx.fail("invariant/queue-content", format!("step {} ({:?}): queue holds {:?}, model {:?} (queue size {}, discard_oldest {})", i, op, q, model, qs, discard));
        }
        if stop {
            break;
        }
    }
    if interesting {
        ctx.nontrivial();
    }
    Ok(())
}

pub fn def() -> PropDef {
    PropDef {
        id: "C24",
        rule: "histories of up to 40 operations (sample a fresh value, re-sample, drain, modify to queue size 0..12 / large / u32::MAX with either discard policy, and the same with a filter the server refuses, which ends the history) on one real MonitoredItem created with queue size 0..12 / large, against a VecDeque model; the queue content is compared after every step and the delivered values after every drain; non-trivial = an overflow of a full queue or a modify that shrinks below the current fill; distinct = distinct history",
        assumptions: &[
            "which entry carries the overflow bit is not fixed by the property: the check requires some delivered entry to carry it after an overflow of a queue larger than 1 (unless a later shrink may have dropped it) and none to carry it when no overflow happened since the last drain",
            "queue size 0 and 1 both mean 1 and sizes above the server maximum are clamped to it (sanitize_queue_size, C23)",
        ],
        abort_possible: false,
        parts: |tier| vec![part("queue_history", tier.pick(3000, 4_000_000), case(), run)],
    }
}

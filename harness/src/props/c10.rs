//! C10 — Memory held for an incomplete incoming message is bounded.
use crate::engine::*;
use crate::props::c07::payload_message;
use crate::srv::{self, Peer, SrvOpts};
use bytes::BytesMut;
use opcua::core::comms::message_chunk::{MessageChunk, MessageIsFinalType};
use opcua::core::comms::tcp_codec::TcpCodec;
use opcua::core::supported_message::SupportedMessage;
use opcua::server::prelude::*;
use proptest::prelude::*;
use serde::{Deserialize, Serialize};
use std::cell::RefCell;
use tokio_util::codec::Decoder;

#[derive(Clone, Debug, Serialize, Deserialize)]
pub enum Step {
    /// n intermediate chunks with bodies of the given size
    Intermediate(u8, u16),
    Final(u16),
    Abort,
    /// an intermediate chunk with a wrong sequence number
    BadSequence(u16),
    /// all chunks of a genuine multi-chunk request
    WholeMessage(u16),
}

#[derive(Clone, Debug, Serialize, Deserialize)]
pub struct Case {
    pub max_chunk_count: u8,
    pub max_message_size: u8,
    pub steps: Vec<Step>,
}

const COUNTS: &[usize] = &[1, 2, 5, 0];
const SIZES: &[usize] = &[8196, 65535, 327_675, 0];

thread_local! {
    static SERVER: RefCell<Option<Server>> = const { RefCell::new(None) };
}

fn with_server<T>(f: impl FnOnce(&Server) -> T) -> T {
    SERVER.with(|s| {
        let mut s = s.borrow_mut();
        if s.is_none() {
            *s = Some(srv::server(&SrvOpts::default()));
        }
        f(s.as_ref().unwrap())
    })
}

fn history(ctx: &Ctx, c: &Case) -> PResult {
    let max_count = COUNTS[c.max_chunk_count as usize % COUNTS.len()];
    let max_size = SIZES[c.max_message_size as usize % SIZES.len()];
    let mut t = with_server(|server| {
        {
            let st = server.server_state();
            let st = st.read();
            let mut cfg = st.config.write();
            cfg.limits.max_chunk_count = max_count;
            cfg.limits.max_message_size = max_size;
        }
        server.new_transport()
    });
    let mut peer = Peer::new();
    if let Err(e) = peer.handshake(&mut t) {
        return ctx.fail("setup/handshake", e);
    }
    ctx.class(&format!("limits_count{}_size{}", max_count, max_size));
    let mut accepted_run = 0usize;
    let mut closed = false;
    for (i, step) in c.steps.iter().enumerate() {
        if closed {
            break;
        }
        let mut chunks: Vec<MessageChunk> = Vec::new();
        match step {
            Step::Intermediate(n, size) => {
                for _ in 0..(1 + *n as usize % 12) {
                    let body = vec![0x42u8; 1 + (*size as usize % 8100)];
                    chunks.push(peer.raw_chunk(MessageIsFinalType::Intermediate, &body, 77));
                }
            }
            Step::Final(size) => chunks.push(peer.raw_chunk(MessageIsFinalType::Final, &vec![0u8; 1 + (*size as usize % 200)], 77)),
            Step::Abort => chunks.push(peer.raw_chunk(MessageIsFinalType::FinalError, &[0u8; 8], 77)),
            Step::BadSequence(d) => {
                peer.next_seq = peer.next_seq.wrapping_add(2 + *d as u32 % 50);
                chunks.push(peer.raw_chunk(MessageIsFinalType::Intermediate, &[1u8; 40], 77));
            }
            Step::WholeMessage(n) => {
                let msg: SupportedMessage = payload_message(*n as usize % 40_000);
                chunks = peer.chunks(&msg, 8196);
            }
        }
        for ch in chunks {
            let (before_n, before_b) = t.verif_pending_chunks();
            let len = ch.data.len();
            let is_intermediate = ch.data[3] == b'C';
            let (r, _out) = ctx.guard(|| t.verif_process_chunk(ch))?;
            let (n, b) = t.verif_pending_chunks();
            if max_count > 0 && n > max_count {
                return ctx.fail("pending/chunk-count", format!("step {} ({:?}): {} chunks buffered for one message, max_chunk_count is {} (result {:?})", i, step, n, max_count, r));
            }
            if max_size > 0 && b > max_size {
                return ctx.fail("pending/bytes", format!("step {} ({:?}): {} bytes buffered for one message, max_message_size is {} (result {:?})", i, step, b, max_size, r));
            }
            if is_intermediate && r.is_ok() && n == before_n + 1 {
                accepted_run += 1;
                if max_count > 0 && accepted_run >= max_count {
                    ctx.nontrivial();
                }
                if max_size > 0 && before_b + len + 8196 > max_size {
                    ctx.nontrivial();
                }
            } else {
                accepted_run = 0;
            }
            if r.is_err() {
                // the reading loop closes the connection on any error
                ctx.class("connection_closed_by_error");
                closed = true;
                break;
            }
        }
    }
    Ok(())
}

#[derive(Clone, Debug, Serialize, Deserialize)]
pub struct FrameCase {
    pub max_message_size: u32,
    pub declared: u32,
    pub present: u8,
    pub kind: u8,
}

/// the framing layer with only a prefix of a frame in the buffer
fn codec_prefix(ctx: &Ctx, c: &FrameCase) -> PResult {
    let max = c.max_message_size as usize;
    let o = DecodingOptions { max_message_size: max, ..DecodingOptions::default() };
    let mut codec = TcpCodec::new(o);
    let ty: &[u8; 4] = [b"MSGF", b"MSGC", b"OPNF", b"HELF", b"ERRF", b"ACKF"][c.kind as usize % 6];
    let mut frame = ty.to_vec();
    frame.extend(c.declared.to_le_bytes());
    frame.extend(std::iter::repeat(0u8).take(1 + c.present as usize % 56));
    if (c.declared as usize) <= frame.len() {
        return Ok(());
    }
    let over = max > 0 && c.declared as usize > max;
    if (c.declared as i64 - max as i64).abs() <= 1 {
        ctx.nontrivial();
    }
    if over {
        ctx.nontrivial();
    }
    let mut buf = BytesMut::from(frame.as_slice());
    let r = ctx.guard(|| codec.decode(&mut buf))?;
    match r {
        Ok(None) if over => ctx.fail("codec/waits-for-oversized-frame", format!("a frame header declaring {} bytes under max_message_size {} makes the framing layer wait for more input instead of rejecting it", c.declared, max)),
        Ok(Some(_)) => ctx.fail("codec/partial-frame-delivered", format!("declared {} bytes, {} present, yet a frame was delivered", c.declared, frame.len())),
        Err(_) if !over => ctx.fail("codec/within-limit-rejected", format!("a partial frame declaring {} bytes under max {} was rejected", c.declared, max)),
        _ => Ok(()),
    }
}

fn step() -> impl Strategy<Value = Step> {
    prop_oneof![
        5 => (any::<u8>(), prop_oneof![Just(8099u16), any::<u16>()]).prop_map(|(n, s)| Step::Intermediate(n, s)),
        1 => any::<u16>().prop_map(Step::Final),
        1 => Just(Step::Abort),
        1 => any::<u16>().prop_map(Step::BadSequence),
        1 => any::<u16>().prop_map(Step::WholeMessage),
    ]
}

pub fn def() -> PropDef {
    PropDef {
        id: "C10",
        rule: "histories of intermediate / final / abort / out-of-sequence chunks and whole multi-chunk requests fed to one real server TcpTransport (private process_chunk through the hook) under limits max_chunk_count in {1,2,5,0} and max_message_size in {8196, 65535, 327675, 0}, checking the buffered chunk count and byte total after every chunk; and the framing layer given only a 9..64 byte prefix of a frame whose declared size is drawn around the limit and up to u32::MAX; non-trivial = a run of accepted intermediate chunks reaching the count or byte limit, or a declared size within 1 of / above the limit; distinct = distinct history / frame",
        assumptions: &["the limit is judged where the server buffers chunks today (TcpTransport::process_chunk); an implementation enforcing it elsewhere is only judged by the loopback variant"],
        abort_possible: false,
        parts: |tier| {
            vec![
                part("chunk_history", tier.pick(1_500, 240_000), (0u8..4, 0u8..4, proptest::collection::vec(step(), 1..10)).prop_map(|(max_chunk_count, max_message_size, steps)| Case { max_chunk_count, max_message_size, steps }), history),
                part(
                    "codec_prefix",
                    tier.pick(20_000, 2_400_000),
                    (prop_oneof![Just(0u32), Just(8196u32), Just(65535), Just(327_675), 64u32..1_000_000], any::<i8>(), proptest::bool::weighted(0.3), any::<u8>(), any::<u8>()).prop_map(|(m, d, huge, present, kind)| {
                        let declared = if huge { [u32::MAX, 0x7fff_ffff, 1 << 24, 1 << 30][d.unsigned_abs() as usize % 4] } else { (m as i64 + d as i64).max(70) as u32 };
                        FrameCase { max_message_size: m, declared, present, kind }
                    }),
                    codec_prefix,
                ),
            ]
        },
    }
}

//! C11 — Framing is independent of how the byte stream is segmented.
use crate::engine::*;
use crate::fixtures;
use crate::props::c07::payload_message;
use bytes::BytesMut;
use opcua::client::verif::SendBuffer;
use opcua::core::comms::chunker::Chunker;
use opcua::core::comms::tcp_codec::TcpCodec;
use opcua::core::comms::tcp_types::{AcknowledgeMessage, ErrorMessage, HelloMessage, MessageHeader, MessageType};
use opcua::types::*;
use proptest::prelude::*;
use serde::{Deserialize, Serialize};
use std::pin::Pin;
use std::task::{Context, Poll};
use tokio_util::codec::Decoder;

#[derive(Clone, Debug, Serialize, Deserialize)]
pub enum Frame {
    Hello(u8),
    Ack,
    Error(u32),
    /// chunk: type 0 MSG 1 OPN 2 CLO, final 0 F 1 C 2 A, body length
    Chunk(u8, u8, u16),
    /// a malformed frame: unknown type / size smaller than the header
    Malformed(u8),
}

#[derive(Clone, Debug, Serialize, Deserialize)]
pub struct Case {
    pub frames: Vec<Frame>,
    /// cut points, scaled over the stream length
    pub cuts: Vec<u16>,
    /// 0 = generated cuts, 1 = single bytes, 2 = whole, 3 = cuts at every header boundary +-1
    pub mode: u8,
}

fn frame_bytes(f: &Frame) -> Vec<u8> {
    match f {
        Frame::Hello(n) => HelloMessage::new(&format!("opc.tcp://h:4855/{}", "x".repeat(*n as usize % 40)), 65535, 65535, 0, 0).encode_to_vec(),
        Frame::Ack => {
            let mut a = AcknowledgeMessage { message_header: MessageHeader::new(MessageType::Acknowledge), protocol_version: 0, receive_buffer_size: 65535, send_buffer_size: 65535, max_message_size: 0, max_chunk_count: 0 };
            a.message_header.message_size = a.byte_len() as u32;
            a.encode_to_vec()
        }
        Frame::Error(code) => ErrorMessage::from_status_code(StatusCode::from_bits_truncate(*code | 0x8000_0000)).encode_to_vec(),
        Frame::Chunk(t, fin, len) => {
            let mut v = [b"MSG", b"OPN", b"CLO"][*t as usize % 3].to_vec();
            v.push([b'F', b'C', b'A'][*fin as usize % 3]);
            let body = *len as usize % 20_000;
            v.extend(((12 + body) as u32).to_le_bytes());
            v.extend(7u32.to_le_bytes());
            v.extend((0..body).map(|i| (i % 253) as u8));
            v
        }
        Frame::Malformed(k) => match k % 3 {
            0 => {
                let mut v = b"XYZF".to_vec();
                v.extend(16u32.to_le_bytes());
                v.extend([0u8; 8]);
                v
            }
            1 => {
                let mut v = b"MSGQ".to_vec();
                v.extend(20u32.to_le_bytes());
                v.extend([0u8; 12]);
                v
            }
            _ => {
                let mut v = b"HELF".to_vec();
                v.extend(9u32.to_le_bytes());
                v.push(1);
                v
            }
        },
    }
}

/// decode everything available, like FramedRead: (frames as debug text, index of the frame that errored)
fn drain(codec: &mut TcpCodec, buf: &mut BytesMut, out: &mut Vec<String>) -> Result<(), String> {
    loop {
        match codec.decode(buf) {
            Ok(Some(m)) => out.push(format!("{:?}", m)),
            Ok(None) => return Ok(()),
            Err(e) => return Err(e.to_string()),
        }
    }
}

fn receive(ctx: &Ctx, c: &Case) -> PResult {
    let mut stream = Vec::new();
    let mut bounds = Vec::new();
    for f in &c.frames {
        stream.extend(frame_bytes(f));
        bounds.push(stream.len());
    }
    let opts = DecodingOptions { max_message_size: 0, ..DecodingOptions::default() };
    // reference: the whole buffer at once
    let mut whole = Vec::new();
    let mut codec = TcpCodec::new(opts.clone());
    let mut buf = BytesMut::from(stream.as_slice());
    let whole_err = ctx.guard(|| drain(&mut codec, &mut buf, &mut whole))?.err();
    // segmentation
    let n = stream.len();
    let mut cuts: Vec<usize> = match c.mode % 4 {
        1 => (1..n).collect(),
        2 => vec![],
        3 => bounds.iter().flat_map(|b| [b.saturating_sub(1), *b, b + 1, b + 7, b + 8, b + 9]).filter(|x| *x > 0 && *x < n).collect(),
        _ => c.cuts.iter().map(|x| (*x as usize * n) >> 16).filter(|x| *x > 0 && *x < n).collect(),
    };
    cuts.sort();
    cuts.dedup();
    let inside_header = cuts.iter().any(|cut| {
        let start = bounds.iter().rev().find(|b| **b <= *cut).copied().unwrap_or(0);
        cut - start > 0 && cut - start < 8
    });
    if c.frames.len() >= 2 && inside_header {
        ctx.nontrivial();
    }
    ctx.class(&format!("mode_{}", c.mode % 4));
    let mut seg = Vec::new();
    let mut codec2 = TcpCodec::new(opts);
    let mut buf2 = BytesMut::new();
    let mut prev = 0usize;
    let mut seg_err = None;
    for cut in cuts.iter().copied().chain(std::iter::once(n)) {
        buf2.extend_from_slice(&stream[prev..cut]);
        prev = cut;
        if let Err(e) = ctx.guard(|| drain(&mut codec2, &mut buf2, &mut seg))? {
            seg_err = Some(e);
            break;
        }
    }
    if seg != whole {
        let i = seg.iter().zip(whole.iter()).position(|(a, b)| a != b).unwrap_or(seg.len().min(whole.len()));
        return ctx.fail("receive/frames-differ", format!("segmented decoding yields {} frames, whole-buffer decoding {}; first difference at frame {} (cuts {:?})", seg.len(), whole.len(), i, cuts));
    }
    if seg_err.is_some() != whole_err.is_some() {
        return ctx.fail("receive/error-differs", format!("segmented error {:?} vs whole-buffer error {:?} after {} frames", seg_err, whole_err, seg.len()));
    }
    Ok(())
}

/// every segmentation of a short stream (thorough: streams up to 20 bytes => 2^19 segmentations)
fn exhaustive_small(tier: Tier) -> Box<dyn Iterator<Item = (Vec<Frame>, u32)>> {
    let bits = if tier == Tier::Thorough { 17 } else { 11 };
    // two tiny frames: an ERR (16 bytes) is too long for full enumeration of both; use a malformed 9 byte HEL and a 12 byte chunk
    let frames = vec![Frame::Chunk(0, 0, 0), Frame::Malformed(2)];
    Box::new((0u32..(1 << bits)).map(move |m| (frames.clone(), m)))
}

fn receive_mask(ctx: &Ctx, c: &(Vec<Frame>, u32)) -> PResult {
    let mut stream = Vec::new();
    for f in &c.0 {
        stream.extend(frame_bytes(f));
    }
    let n = stream.len();
    let cuts: Vec<u16> = (1..n).filter(|i| c.1 >> (i - 1) & 1 == 1).map(|i| (((i << 16) + n - 1) / n) as u16).collect();
    ctx.nontrivial();
    receive(ctx, &Case { frames: c.0.clone(), cuts, mode: 0 })
}

// ---- send half --------------------------------------------------------------------------------

#[derive(Clone, Debug, Serialize, Deserialize)]
pub enum WriteEvent {
    /// accept at most this many bytes (scaled to the offered length, at least 1)
    Accept(u16),
    /// the socket is not ready: the write future is dropped (cancellation) and retried later
    Pending,
}

#[derive(Clone, Debug, Serialize, Deserialize)]
pub struct SendCase {
    pub pm: u8,
    pub messages: Vec<u32>,
    pub schedule: Vec<WriteEvent>,
}

struct ScheduledWriter {
    schedule: std::collections::VecDeque<WriteEvent>,
    sink: Vec<u8>,
    partial_writes: usize,
    pendings: usize,
}

impl tokio::io::AsyncWrite for ScheduledWriter {
    fn poll_write(mut self: Pin<&mut Self>, _cx: &mut Context<'_>, buf: &[u8]) -> Poll<std::io::Result<usize>> {
        match self.schedule.pop_front() {
            Some(WriteEvent::Pending) => {
                self.pendings += 1;
                Poll::Pending
            }
            Some(WriteEvent::Accept(q)) => {
                let n = (1 + ((q as usize * buf.len()) >> 16)).min(buf.len());
                if n < buf.len() {
                    self.partial_writes += 1;
                }
                self.sink.extend_from_slice(&buf[..n]);
                Poll::Ready(Ok(n))
            }
            None => {
                self.sink.extend_from_slice(buf);
                Poll::Ready(Ok(buf.len()))
            }
        }
    }
    fn poll_flush(self: Pin<&mut Self>, _cx: &mut Context<'_>) -> Poll<std::io::Result<()>> {
        Poll::Ready(Ok(()))
    }
    fn poll_shutdown(self: Pin<&mut Self>, _cx: &mut Context<'_>) -> Poll<std::io::Result<()>> {
        Poll::Ready(Ok(()))
    }
}

fn send(ctx: &Ctx, c: &SendCase) -> PResult {
    use futures::FutureExt;
    let (policy, mode) = fixtures::policy_mode([0usize, 6, 5, 2][c.pm as usize % 4]);
    let (client, _server) = fixtures::channel_pair(policy, mode, "rsa2048a", "rsa2048b", &fixtures::nonce_for(policy, 3), &fixtures::nonce_for(policy, 77));
    let chunk_size = 8196;
    let mut sb = SendBuffer::new(chunk_size, 0, 0);
    // expected bytes, computed with the chunker and apply_security directly
    let mut expected = Vec::new();
    let mut seq = 1u32;
    let mut total_chunks = 0usize;
    let msgs: Vec<_> = c.messages.iter().map(|n| payload_message(*n as usize % 30_000)).collect();
    let mut ids = Vec::new();
    for m in &msgs {
        let id = sb.next_request_id();
        ids.push(id);
        let chunks = Chunker::encode(seq, id, 0, chunk_size, &client, m).map_err(|e| Failure { sig: "send/setup".into(), detail: e.to_string() })?;
        seq += chunks.len() as u32;
        total_chunks += chunks.len();
        for ch in &chunks {
            let mut b = vec![0u8; ch.data.len() + 4096];
            let n = client.apply_security(ch, &mut b).map_err(|e| Failure { sig: "send/setup".into(), detail: e.to_string() })?;
            expected.extend_from_slice(&b[..n]);
        }
    }
    let mut w = ScheduledWriter { schedule: c.schedule.iter().cloned().collect(), sink: Vec::new(), partial_writes: 0, pendings: 0 };
    let mut next_msg = 0usize;
    let mut guard = 0usize;
    // the call protocol of the transport's poll loop
    loop {
        guard += 1;
        if guard > 200_000 {
            return ctx.fail("send/no-progress", "the send buffer did not drain");
        }
        if sb.should_encode_chunks() {
            if let Err(e) = ctx.guard(|| sb.encode_next_chunk(&client))? {
                return ctx.fail("send/encode_next_chunk", format!("{}", e));
            }
        }
        if sb.can_read() {
            // one poll of the write future; if the socket is not ready the future is dropped (select! cancellation)
            let r = ctx.guard(|| sb.read_into_async(&mut w).now_or_never())?;
            if let Some(Err(e)) = r {
                return ctx.fail("send/io-error", e.to_string());
            }
        } else if next_msg < msgs.len() {
            if let Err(e) = ctx.guard(|| sb.write(ids[next_msg], msgs[next_msg].clone(), &client))? {
                return ctx.fail("send/write", format!("write of message {} failed: {}", next_msg, e));
            }
            next_msg += 1;
        } else {
            break;
        }
    }
    if w.partial_writes >= 1 && total_chunks >= 2 {
        ctx.nontrivial();
    }
    if w.pendings > 0 {
        ctx.class("with_cancelled_write");
    }
    ctx.class(&format!("{:?}_{:?}", policy, mode));
    if w.sink != expected {
        let i = w.sink.iter().zip(expected.iter()).position(|(a, b)| a != b).unwrap_or(w.sink.len().min(expected.len()));
        return ctx.fail(if w.sink.len() < expected.len() { "send/bytes-lost" } else if w.sink.len() > expected.len() { "send/bytes-repeated" } else { "send/bytes-differ" }, format!("socket received {} bytes, expected {}; first difference at offset {} ({} chunks, {} partial writes, {} cancelled)", w.sink.len(), expected.len(), i, total_chunks, w.partial_writes, w.pendings));
    }
    Ok(())
}

fn frame() -> impl Strategy<Value = Frame> {
    prop_oneof![
        1 => any::<u8>().prop_map(Frame::Hello),
        1 => Just(Frame::Ack),
        1 => any::<u32>().prop_map(Frame::Error),
        5 => (0u8..3, 0u8..3, prop_oneof![0u16..40, any::<u16>()]).prop_map(|(t, f, l)| Frame::Chunk(t, f, l)),
    ]
}

pub fn def() -> PropDef {
    PropDef {
        id: "C11",
        rule: "receive: sequences of 0..8 HEL / ACK / ERR / chunk frames (optionally one malformed frame) and a segmentation of their concatenation (generated cut points, single bytes, whole, cuts at every header boundary +-1; exhaustive over all segmentations of a 21 byte stream up to a bit mask bound), decoded segment by segment vs the whole buffer; send: 1..5 messages of 1..4 chunks written to the real client SendBuffer and drained with the transport's call protocol through a writer that accepts generated partial lengths or returns Pending (future dropped and retried), compared with Chunker::encode + apply_security computed directly; non-trivial = >= 2 frames with a cut strictly inside a header, or >= 2 chunks with a partial write; distinct = distinct case",
        assumptions: &["frames are compared through their Debug rendering", "send half uses policies None, Basic256Sha256 Sign+Encrypt, Basic256Sha256 Sign and Basic128Rsa15 Sign+Encrypt"],
        abort_possible: false,
        parts: |tier| {
            vec![
                part(
                    "receive",
                    tier.pick(4_000, 100_000),
                    (proptest::collection::vec(frame(), 0..8), proptest::option::weighted(0.2, (any::<u8>(), 0usize..8)), proptest::collection::vec(any::<u16>(), 0..12), 0u8..4).prop_map(|(mut frames, bad, cuts, mode)| {
                        if let Some((k, pos)) = bad {
                            let p = pos.min(frames.len());
                            frames.insert(p, Frame::Malformed(k));
                        }
                        Case { frames, cuts, mode }
                    }),
                    receive,
                ),
                part_enum("receive_all_segmentations", exhaustive_small, receive_mask),
                part(
                    "send",
                    tier.pick(1_000, 30_000),
                    (0u8..4, proptest::collection::vec(prop_oneof![0u32..300, 8000u32..30_000], 1..5), proptest::collection::vec(prop_oneof![3 => any::<u16>().prop_map(WriteEvent::Accept), 1 => Just(WriteEvent::Pending), 1 => Just(WriteEvent::Accept(0))], 0..60))
                        .prop_map(|(pm, messages, schedule)| SendCase { pm, messages, schedule }),
                    send,
                ),
            ]
        },
    }
}

//! C06 — Implicit Variant conversion never changes a numeric value; explicit casts round to nearest.
use crate::engine::*;
use opcua::types::{Variant, VariantTypeId};
use proptest::prelude::*;
use serde::{Deserialize, Serialize};

/// kinds: 0 Boolean(src only) 1 SByte 2 Byte 3 Int16 4 UInt16 5 Int32 6 UInt32 7 Int64 8 UInt64 9 Float 10 Double
#[derive(Clone, Debug, Serialize, Deserialize)]
pub struct Case {
    pub src: u8,
    pub tgt: u8,
    /// integer sources: value taken modulo the type (two's complement truncation of this i128-ish pair)
    pub int: i64,
    pub uint: u64,
    /// float sources: f64 bit pattern (Float sources use `as f32` of it)
    pub fbits: u64,
    pub cast: bool,
}

const KIND_NAMES: [&str; 11] = ["Boolean", "SByte", "Byte", "Int16", "UInt16", "Int32", "UInt32", "Int64", "UInt64", "Float", "Double"];

fn type_id(k: u8) -> VariantTypeId {
    use VariantTypeId::*;
    [Boolean, SByte, Byte, Int16, UInt16, Int32, UInt32, Int64, UInt64, Float, Double][k as usize]
}

/// integer range of kind k as i128 (None for Boolean/Float/Double)
fn int_range(k: u8) -> Option<(i128, i128)> {
    Some(match k {
        1 => (i8::MIN as i128, i8::MAX as i128),
        2 => (0, u8::MAX as i128),
        3 => (i16::MIN as i128, i16::MAX as i128),
        4 => (0, u16::MAX as i128),
        5 => (i32::MIN as i128, i32::MAX as i128),
        6 => (0, u32::MAX as i128),
        7 => (i64::MIN as i128, i64::MAX as i128),
        8 => (0, u64::MAX as i128),
        _ => return None,
    })
}

#[derive(Clone, Copy, Debug)]
enum Num {
    Int(i128),
    F32(f32),
    F64(f64),
}

fn source(c: &Case) -> (Variant, Num) {
    match c.src {
        0 => (Variant::Boolean(c.uint & 1 == 1), Num::Int((c.uint & 1) as i128)),
        1 => (Variant::SByte(c.int as i8), Num::Int(c.int as i8 as i128)),
        2 => (Variant::Byte(c.uint as u8), Num::Int(c.uint as u8 as i128)),
        3 => (Variant::Int16(c.int as i16), Num::Int(c.int as i16 as i128)),
        4 => (Variant::UInt16(c.uint as u16), Num::Int(c.uint as u16 as i128)),
        5 => (Variant::Int32(c.int as i32), Num::Int(c.int as i32 as i128)),
        6 => (Variant::UInt32(c.uint as u32), Num::Int(c.uint as u32 as i128)),
        7 => (Variant::Int64(c.int), Num::Int(c.int as i128)),
        8 => (Variant::UInt64(c.uint), Num::Int(c.uint as i128)),
        9 => {
            let f = f64::from_bits(c.fbits) as f32;
            (Variant::Float(f), Num::F32(f))
        }
        _ => {
            let f = f64::from_bits(c.fbits);
            (Variant::Double(f), Num::F64(f))
        }
    }
}

fn result_num(v: &Variant) -> Option<Num> {
    Some(match v {
        Variant::SByte(x) => Num::Int(*x as i128),
        Variant::Byte(x) => Num::Int(*x as i128),
        Variant::Int16(x) => Num::Int(*x as i128),
        Variant::UInt16(x) => Num::Int(*x as i128),
        Variant::Int32(x) => Num::Int(*x as i128),
        Variant::UInt32(x) => Num::Int(*x as i128),
        Variant::Int64(x) => Num::Int(*x as i128),
        Variant::UInt64(x) => Num::Int(*x as i128),
        Variant::Float(x) => Num::F32(*x),
        Variant::Double(x) => Num::F64(*x),
        _ => return None,
    })
}

/// exact integer value of a finite float that is integral, via its bit pattern (no `as` on the value)
fn f64_exact_int(f: f64) -> Option<i128> {
    if !f.is_finite() {
        return None;
    }
    if f == 0.0 {
        return Some(0);
    }
    let bits = f.to_bits();
    let neg = bits >> 63 == 1;
    let exp = ((bits >> 52) & 0x7ff) as i32;
    let frac = bits & ((1u64 << 52) - 1);
    let (mant, e) = if exp == 0 { (frac, -1074) } else { (frac | (1u64 << 52), exp - 1075) };
    let mag: i128 = if e >= 0 {
        if e > 70 {
            return None; // beyond i128 interest: treat as huge
        }
        (mant as i128) << e
    } else {
        let sh = (-e) as u32;
        if sh >= 64 {
            return None;
        }
        if mant & ((1u64 << sh) - 1) != 0 {
            return None; // not integral
        }
        (mant >> sh) as i128
    };
    Some(if neg { -mag } else { mag })
}

/// floor and fractional classification of a finite float: returns (floor as i128, frac_cmp_half) where
/// frac_cmp_half is Less/Equal/Greater for (f - floor) vs 0.5; None if |f| too large (then integral)
fn floor_and_half(f: f64) -> Option<(i128, std::cmp::Ordering)> {
    let bits = f.to_bits();
    let neg = bits >> 63 == 1;
    let exp = ((bits >> 52) & 0x7ff) as i32;
    let frac = bits & ((1u64 << 52) - 1);
    let (mant, e) = if exp == 0 { (frac, -1074) } else { (frac | (1u64 << 52), exp - 1075) };
    if e >= 0 {
        return None;
    }
    let sh = (-e) as u32;
    // magnitude = mant / 2^sh
    let (ipart, rem_num, rem_den_log) = if sh >= 64 { (0u64, mant as u128, sh) } else { (mant >> sh, (mant & ((1u64 << sh) - 1)) as u128, sh) };
    // compare rem/2^sh with 1/2  <=> rem*2 vs 2^sh
    let half_cmp_mag = if rem_den_log >= 127 {
        if rem_num == 0 { std::cmp::Ordering::Equal } else { std::cmp::Ordering::Less }
    } else {
        (rem_num * 2).cmp(&(1u128 << rem_den_log))
    };
    let frac_is_zero = rem_num == 0;
    if !neg {
        let c = if frac_is_zero { std::cmp::Ordering::Less } else { half_cmp_mag };
        Some((ipart as i128, c))
    } else {
        // f = -(ipart + r), floor = -ipart-1 if r>0 else -ipart ; frac part = 1-r
        if frac_is_zero {
            Some((-(ipart as i128), std::cmp::Ordering::Less))
        } else {
            Some((-(ipart as i128) - 1, half_cmp_mag.reverse()))
        }
    }
}

/// the set of acceptable round-to-nearest results of a finite float (both neighbours at a tie)
fn round_nearest(f: f64) -> Vec<i128> {
    if let Some(i) = f64_exact_int(f) {
        return vec![i];
    }
    match floor_and_half(f) {
        Some((fl, std::cmp::Ordering::Less)) => vec![fl],
        Some((fl, std::cmp::Ordering::Greater)) => vec![fl + 1],
        Some((fl, std::cmp::Ordering::Equal)) => vec![fl, fl + 1],
        None => vec![], // huge magnitude beyond i128 shift range: out of every integer range
    }
}

fn next_up(f: f64) -> f64 {
    let b = f.to_bits();
    if f == 0.0 {
        f64::from_bits(1)
    } else if f > 0.0 {
        f64::from_bits(b + 1)
    } else {
        f64::from_bits(b - 1)
    }
}
fn next_down(f: f64) -> f64 {
    -next_up(-f)
}
fn next_up32(f: f32) -> f32 {
    let b = f.to_bits();
    if f == 0.0 {
        f32::from_bits(1)
    } else if f > 0.0 {
        f32::from_bits(b + 1)
    } else {
        f32::from_bits(b - 1)
    }
}

/// is r the (a) nearest representable f64 to the integer v?
fn is_nearest_f64(r: f64, v: i128) -> bool {
    let Some(ri) = f64_exact_int(r) else { return false };
    let err = (ri - v).abs();
    for n in [next_up(r), next_down(r)] {
        if let Some(ni) = f64_exact_int(n) {
            if (ni - v).abs() < err {
                return false;
            }
        }
        // a non-integral neighbour is closer to r than 1 and r is integral: only possible when |r| < 2^53, where r==v is exact
    }
    if ri.abs() < (1i128 << 53) {
        return err == 0;
    }
    true
}
fn is_nearest_f32(r: f32, v: i128) -> bool {
    let Some(ri) = f64_exact_int(r as f64) else { return false };
    let err = (ri - v).abs();
    let up = next_up32(r);
    let down = -next_up32(-r);
    for n in [up, down] {
        if n.is_finite() {
            if let Some(ni) = f64_exact_int(n as f64) {
                if (ni - v).abs() < err {
                    return false;
                }
            }
        }
    }
    if ri.abs() < (1i128 << 24) {
        return err == 0;
    }
    true
}

fn check(ctx: &Ctx, c: &Case) -> PResult {
    let (src, num) = source(c);
    let tgt = type_id(c.tgt);
    let pair = format!("{}->{}", KIND_NAMES[c.src as usize], KIND_NAMES[c.tgt as usize]);
    if c.src == c.tgt {
        return Ok(());
    }
    // non-triviality: value not representable in the narrowest type, non-integral, or near a target bound
    let near_bound = match (num, int_range(c.tgt)) {
        (Num::Int(v), Some((lo, hi))) => (v - lo).abs() <= 1 || (v - hi).abs() <= 1 || v < lo || v > hi,
        (Num::F32(f), Some((lo, hi))) => !f.is_finite() || f.fract() != 0.0 || (f as f64) < lo as f64 + 2.0 || (f as f64) > hi as f64 - 2.0,
        (Num::F64(f), Some((lo, hi))) => !f.is_finite() || f.fract() != 0.0 || f < lo as f64 + 2.0 || f > hi as f64 - 2.0,
        (Num::Int(v), None) => v.abs() > (1 << 24),
        _ => false,
    };
    if near_bound {
        ctx.nontrivial();
    }
    if !c.cast {
        ctx.class("convert");
        let r = src.convert(tgt);
        if r == Variant::Empty {
            ctx.class("convert_empty");
            return Ok(());
        }
        let Some(rn) = result_num(&r) else {
            return ctx.fail(format!("implicit/wrong-type/{}", pair), format!("convert({:?}, {:?}) = {:?}", src, tgt, r));
        };
        if r.type_id() != tgt {
            return ctx.fail(format!("implicit/wrong-type/{}", pair), format!("convert({:?}, {:?}) = {:?}", src, tgt, r));
        }
        let ok = match (num, rn) {
            (Num::Int(v), Num::Int(r)) => v == r,
            (Num::Int(v), Num::F64(r)) => is_nearest_f64(r, v),
            (Num::Int(v), Num::F32(r)) => is_nearest_f32(r, v),
            (Num::F32(v), Num::F64(r)) => (v.is_nan() && r.is_nan()) || (v as f64).to_bits() == r.to_bits(),
            (Num::F32(v), Num::Int(r)) => f64_exact_int(v as f64) == Some(r),
            (Num::F64(v), Num::Int(r)) => f64_exact_int(v) == Some(r),
            (Num::F64(v), Num::F32(r)) => (v.is_nan() && r.is_nan()) || (r as f64 == v) || {
                // nearest representable f32
                let rr = r as f64;
                v.is_finite() && r.is_finite() && (rr - v).abs() <= (next_up32(r) as f64 - v).abs() && (rr - v).abs() <= ((-next_up32(-r)) as f64 - v).abs()
            },
            (Num::F32(_), Num::F32(_)) | (Num::F64(_), Num::F64(_)) => true,
        };
        if !ok {
            return ctx.fail(format!("implicit-exact/{}", pair), format!("convert({:?}, {:?}) = {:?} denotes a different number", src, tgt, r));
        }
        Ok(())
    } else {
        ctx.class("cast");
        let Some((lo, hi)) = int_range(c.tgt) else { return Ok(()) };
        if c.src == 0 {
            return Ok(());
        }
        // supported pair? (the cast table has holes which the property does not require to be filled)
        let zero = match c.src {
            1 => Variant::SByte(1), 2 => Variant::Byte(1), 3 => Variant::Int16(1), 4 => Variant::UInt16(1), 5 => Variant::Int32(1),
            6 => Variant::UInt32(1), 7 => Variant::Int64(1), 8 => Variant::UInt64(1), 9 => Variant::Float(1.0), _ => Variant::Double(1.0),
        };
        if zero.cast(tgt) == Variant::Empty {
            ctx.class("cast_unsupported_pair");
            ctx.excluded();
            return Ok(());
        }
        let r = src.cast(tgt);
        let acceptable: Vec<i128> = match num {
            Num::Int(v) => vec![v],
            Num::F32(f) => if f.is_finite() { round_nearest(f as f64) } else { vec![] },
            Num::F64(f) => if f.is_finite() { round_nearest(f) } else { vec![] },
        };
        let in_range: Vec<i128> = acceptable.iter().copied().filter(|v| *v >= lo && *v <= hi).collect();
        let is_float = matches!(num, Num::F32(_) | Num::F64(_));
        let kind = if is_float { "float" } else { "int" };
        if r == Variant::Empty {
            // must be Empty exactly when the rounded value is out of range (at a tie: when any acceptable rounding is)
            if !acceptable.is_empty() && in_range.len() == acceptable.len() {
                return ctx.fail(format!("cast/{}/in-range-rejected/{}", kind, pair), format!("cast({:?}, {:?}) = Empty but rounded value {:?} is in range", src, tgt, acceptable));
            }
            ctx.class("cast_empty");
            return Ok(());
        }
        if r.type_id() != tgt {
            return ctx.fail(format!("cast/wrong-type/{}", pair), format!("cast({:?}, {:?}) = {:?}", src, tgt, r));
        }
        let Some(Num::Int(ri)) = result_num(&r) else {
            return ctx.fail(format!("cast/wrong-type/{}", pair), format!("cast({:?}, {:?}) = {:?}", src, tgt, r));
        };
        if in_range.is_empty() {
            let why = match num {
                Num::F32(f) if f.is_nan() => "nan",
                Num::F64(f) if f.is_nan() => "nan",
                Num::F32(f) if f.is_infinite() => "infinite",
                Num::F64(f) if f.is_infinite() => "infinite",
                _ => "out-of-range",
            };
            return ctx.fail(format!("cast/{}/{}-accepted", kind, why), format!("cast({:?}, {:?}) = {:?} but the rounded value is outside the target range", src, tgt, r));
        }
        if !in_range.contains(&ri) {
            let neg = match num { Num::F32(f) => f < 0.0, Num::F64(f) => f < 0.0, Num::Int(v) => v < 0 };
            return ctx.fail(format!("cast/{}/not-nearest/{}", kind, if neg { "negative" } else { "positive" }), format!("cast({:?}, {:?}) = {:?}, nearest is {:?}", src, tgt, r, in_range));
        }
        Ok(())
    }
}

fn edge_i64() -> impl Strategy<Value = i64> {
    let edges: Vec<i64> = {
        let mut v = vec![0i64, 1, -1, 2, -2];
        for b in [7u32, 8, 15, 16, 24, 31, 32, 53, 63] {
            let p = if b == 63 { i64::MAX } else { (1i64 << b) - 1 };
            for d in [-1i64, 0, 1, 2] {
                v.push(p.saturating_add(d));
                v.push((-p).saturating_add(d));
                v.push((-p - 1).saturating_add(d));
            }
        }
        v.push(i64::MIN);
        v
    };
    prop_oneof![3 => proptest::sample::select(edges), 1 => any::<i8>().prop_map(|x| x as i64), 1 => any::<i32>().prop_map(|x| x as i64), 2 => any::<i64>(), 2 => (near_float_midpoint(), any::<bool>()).prop_map(|(v, neg)| if neg { (v as i64).wrapping_neg() } else { v as i64 })]
}

/// integers next to a midpoint between two adjacent f32 (24-bit mantissa) or f64 (53-bit mantissa) values: where a conversion
/// that rounds twice, or truncates, picks the wrong neighbour
fn near_float_midpoint() -> impl Strategy<Value = u64> {
    (any::<u64>(), any::<bool>(), 1u32..41, -2i64..3).prop_map(|(m, single, shift, d)| {
        let bits = if single { 24 } else { 53 };
        let shift = shift.min(64 - bits);
        let mant = (m & ((1u64 << bits) - 1)) | (1u64 << (bits - 1));
        let mid = (mant << shift).wrapping_add(1u64 << (shift - 1));
        mid.wrapping_add(d as u64)
    })
}
fn edge_u64() -> impl Strategy<Value = u64> {
    let edges: Vec<u64> = {
        let mut v = vec![0u64, 1, 2];
        for b in [7u32, 8, 15, 16, 24, 31, 32, 53, 63, 64] {
            let p = if b == 64 { u64::MAX } else { (1u64 << b) - 1 };
            for d in [0u64, 1, 2] {
                v.push(p.wrapping_add(d));
                v.push(p.wrapping_sub(d));
            }
        }
        v
    };
    prop_oneof![3 => proptest::sample::select(edges), 1 => any::<u8>().prop_map(|x| x as u64), 1 => any::<u32>().prop_map(|x| x as u64), 2 => any::<u64>(), 2 => near_float_midpoint()]
}
fn edge_f64bits() -> impl Strategy<Value = u64> {
    let mut e: Vec<f64> = vec![0.0, -0.0, 0.5, -0.5, 1.5, -1.5, 2.5, -2.5, 12.5, -1.6, -1.4, 1.4, 1.6, 0.49999999999999994, -0.49999999999999994,
        f64::NAN, f64::INFINITY, f64::NEG_INFINITY, 1e30, -1e30, 1e300, -1e300, f64::MIN_POSITIVE, 5e-324, f64::MAX, f64::MIN];
    for b in [7u32, 8, 15, 16, 24, 31, 32, 53, 63, 64] {
        let p = 2f64.powi(b as i32);
        for d in [-1.5, -1.0, -0.5, -0.25, 0.0, 0.25, 0.5, 1.0, 1.5] {
            e.push(p + d);
            e.push(-p + d);
        }
        e.push(next_up(p));
        e.push(next_down(p));
        e.push(next_up(-p));
        e.push(next_down(-p));
    }
    let bits: Vec<u64> = e.into_iter().map(|f| f.to_bits()).collect();
    prop_oneof![
        4 => proptest::sample::select(bits),
        2 => (any::<i32>(), 0u8..4).prop_map(|(i, q)| (i as f64 + q as f64 * 0.25).to_bits()),
        1 => (-70000i32..70000, 0u8..8).prop_map(|(i, q)| (i as f64 + q as f64 * 0.125).to_bits()),
        2 => any::<u64>(),
    ]
}

fn case_strategy(pairs: Vec<(u8, u8, bool)>) -> impl Strategy<Value = Case> {
    (proptest::sample::select(pairs), edge_i64(), edge_u64(), edge_f64bits())
        .prop_map(|((src, tgt, cast), int, uint, fbits)| Case { src, tgt, int, uint, fbits, cast })
}

fn all_pairs() -> Vec<(u8, u8, bool)> {
    let mut v = Vec::new();
    for s in 0u8..11 {
        for t in 1u8..11 {
            if s != t {
                v.push((s, t, false));
                v.push((s, t, true));
            }
        }
    }
    v
}

/// every value of every 8- and 16-bit source type, for every target, convert and cast (thorough)
fn small_exhaustive(tier: Tier) -> Box<dyn Iterator<Item = Case>> {
    let srcs: Vec<u8> = if tier == Tier::Thorough { vec![1, 2, 3, 4] } else { vec![1, 2] };
    Box::new(srcs.into_iter().flat_map(|s| {
        let n: u32 = if s <= 2 { 256 } else { 65536 };
        (0..n).flat_map(move |x| {
            (1u8..11).filter(move |t| *t != s).flat_map(move |t| {
                [false, true].into_iter().map(move |cast| Case { src: s, tgt: t, int: x as u16 as i16 as i64, uint: x as u64, fbits: 0, cast })
            })
        })
    }))
}

pub fn def() -> PropDef {
    PropDef {
        id: "C06",
        rule: "source kind x target kind over the 11 numeric kinds (pairs enumerated), boundary-biased source values (type bounds +-2, and 64-bit integers within 2 of a midpoint between adjacent Float / Double values), both convert and cast, against exact i128 / IEEE-bit arithmetic; non-trivial = source value within 1 of a target bound, outside it, non-integral or non-finite; distinct = distinct (pair, value, convert|cast)",
        assumptions: &[
            "a pair the implementation does not support (cast of 1 yields Empty) is not required to be supported",
            "exact .5 ties may round to either neighbour",
            "explicit-cast oracle applies to integer targets only, as the property states",
        ],
        abort_possible: false,
        parts: |tier| {
            vec![
                part("pairs_x_values", tier.pick(120_000, 24_000_000), case_strategy(all_pairs()), check),
                part_enum("small_sources_exhaustive", small_exhaustive, check),
            ]
        },
    }
}

//! C31 — Browse path translation finds exactly the matching nodes.
use crate::engine::*;
use crate::srv::{self, Conn};
use opcua::core::supported_message::SupportedMessage;
use opcua::server::address_space::relative_path::find_nodes_relative_path;
use opcua::server::prelude::*;
use proptest::prelude::*;
use serde::{Deserialize, Serialize};
use std::cell::Cell;
use std::collections::BTreeSet;

#[derive(Clone, Debug, Serialize, Deserialize, PartialEq)]
pub struct Element {
    /// index into FILTER_TYPES
    pub reference_type: u8,
    pub include_subtypes: bool,
    pub is_inverse: bool,
    /// (namespace 0/1, name index into NAMES; NAMES.len() = a name no node has)
    pub name: (u8, u8),
    /// Some(k): steer the element along the k-th reference that leaves (or, for inverse, enters) the nodes reached so far:
    /// its target's browse name is used, and its reference type (reference_type % 3 = 0), the parent of its type with
    /// include_subtypes (1) or the null type (2)
    #[serde(default)]
    pub follow: Option<u8>,
}

#[derive(Clone, Debug, Serialize, Deserialize, PartialEq)]
pub struct Case {
    /// browse name of each node: (namespace 0/1, index into NAMES)
    pub nodes: Vec<(u8, u8)>,
    /// (source, target, index into EDGE_TYPES)
    pub edges: Vec<(u8, u8, u8)>,
    pub start: u8,
    pub path: Vec<Element>,
    pub via_service: bool,
}

const NAMES: [&str; 3] = ["a", "b", "c"];
/// reference types put on edges: Organizes, HasProperty, HasComponent, HasOrderedComponent, GeneratesEvent, custom (ns 1)
const EDGE_TYPES: [u32; 6] = [35, 46, 47, 49, 41, 0];
/// reference types used as filters: null, References, NonHierarchical, Hierarchical, HasChild, Organizes, Aggregates, HasProperty,
/// HasComponent, HasOrderedComponent, GeneratesEvent, the custom type, an unknown custom type
const FILTER_TYPES: [u32; 13] = [0, 31, 32, 33, 34, 35, 44, 46, 47, 49, 41, 1_000_001, 1_000_002];

fn parent(t: u32) -> Option<u32> {
    match t {
        33 | 32 => Some(31),
        34 | 35 => Some(33),
        44 => Some(34),
        46 | 47 => Some(44),
        49 => Some(47),
        41 => Some(32),
        _ => None,
    }
}

fn is_same_or_subtype(t: u32, base: u32) -> bool {
    let mut cur = Some(t);
    while let Some(c) = cur {
        if c == base {
            return true;
        }
        cur = parent(c);
    }
    false
}

fn type_node_id(t: u32) -> NodeId {
    match t {
        1_000_001 => NodeId::new(1, "c31-custom-reference-type"),
        1_000_002 => NodeId::new(1, "c31-unknown-reference-type"),
        0 => NodeId::null(),
        n => NodeId::new(0, n),
    }
}

fn case() -> impl Strategy<Value = Case> {
    (3u8..10).prop_flat_map(|n| {
        let element = (0u8..FILTER_TYPES.len() as u8, any::<bool>(), proptest::bool::weighted(0.3), (0u8..2, prop_oneof![8 => 0u8..3, 1 => Just(3u8)]), proptest::option::weighted(0.7, any::<u8>())).prop_map(|(reference_type, include_subtypes, is_inverse, name, follow)| Element { reference_type, include_subtypes, is_inverse, name, follow });
        (
            prop::collection::vec((prop_oneof![3 => Just(0u8), 1 => Just(1u8)], 0u8..3), n as usize),
            prop::collection::vec((0..n, 0..n, 0u8..EDGE_TYPES.len() as u8), 0..24),
            0..n,
            prop::collection::vec(element, 1..5),
            any::<bool>(),
        )
            .prop_map(|(nodes, edges, start, path, via_service)| Case { nodes, edges, start, path, via_service })
    })
}

thread_local! {
    static CASE_NO: Cell<u64> = const { Cell::new(0) };
}

fn run(ctx: &Ctx, c: &Case) -> PResult {
    let server = srv::worker_server(false);
    let case_no = CASE_NO.with(|n| {
        n.set(n.get() + 1);
        n.get()
    });
    let n = c.nodes.len();
    let id = |i: usize| NodeId::new(1, format!("c31-{}-{}-{}", std::process::id(), case_no, i));
    let qname = |(ns, k): (u8, u8)| QualifiedName::new(ns as u16 % 2, if (k as usize) < NAMES.len() { NAMES[k as usize] } else { "zz" });
    // ground truth: (source, target, type)
    let mut truth: BTreeSet<(usize, usize, u32)> = BTreeSet::new();
    for (a, b, t) in &c.edges {
        let (a, b) = (*a as usize % n, *b as usize % n);
        if a != b {
            let t = EDGE_TYPES[*t as usize % EDGE_TYPES.len()];
            truth.insert((a, b, if t == 0 { 1_000_001 } else { t }));
        }
    }
    {
        let a = server.address_space();
        let mut a = a.write();
        for (i, bn) in c.nodes.iter().enumerate() {
            ObjectBuilder::new(&id(i), qname(*bn), "n").insert(&mut a);
        }
        for (s, t, ty) in &truth {
            a.insert_reference(&id(*s), &id(*t), type_node_id(*ty));
        }
    }
    // reference evaluation
    let mut current: BTreeSet<usize> = BTreeSet::from([c.start as usize % n]);
    let mut null_name = false;
    let mut multi = 0;
    let mut subtype_only_match = false;
    let mut sibling_rejected = false;
    let mut effective: Vec<(u32, bool, bool, QualifiedName)> = Vec::new();
    for e in &c.path {
        let mut ft = FILTER_TYPES[e.reference_type as usize % FILTER_TYPES.len()];
        let mut want = qname(e.name);
        let mut include_subtypes = e.include_subtypes;
        if let Some(k) = e.follow {
            let cands: Vec<&(usize, usize, u32)> = truth.iter().filter(|(s, t, _)| current.contains(if e.is_inverse { t } else { s })).collect();
            if !cands.is_empty() {
                let (s, t, ty) = cands[k as usize % cands.len()];
                want = qname(c.nodes[if e.is_inverse { *s } else { *t }]);
                match e.reference_type % 3 {
                    0 => ft = *ty,
                    1 => {
                        if let Some(p) = parent(*ty) {
                            ft = p;
                            include_subtypes = true;
                        } else {
                            ft = *ty;
                        }
                    }
                    _ => ft = 0,
                }
            }
        }
        effective.push((ft, include_subtypes, e.is_inverse, want.clone()));
        let e = &Element { reference_type: 0, include_subtypes, is_inverse: e.is_inverse, name: e.name, follow: None };
        let mut next = BTreeSet::new();
        for x in &current {
            for (s, t, ty) in &truth {
                let (from, to) = if e.is_inverse { (t, s) } else { (s, t) };
                if from != x {
                    continue;
                }
                let type_ok = ft == 0 || *ty == ft || (e.include_subtypes && is_same_or_subtype(*ty, ft));
                let name_ok = qname(c.nodes[*to]) == want;
                if type_ok && name_ok {
                    next.insert(*to);
                    if *ty != ft && ft != 0 {
                        subtype_only_match = true;
                    }
                } else if type_ok || name_ok {
                    sibling_rejected = true;
                }
            }
        }
        current = next;
        if current.is_empty() {
            break;
        }
        multi += 1;
    }
    let _ = null_name;
    if (multi >= 2 && sibling_rejected) || subtype_only_match {
        ctx.nontrivial();
    }
    // elements after an empty result are not evaluated by the reference; they are passed on as generated
    for e in c.path.iter().skip(effective.len()) {
        effective.push((FILTER_TYPES[e.reference_type as usize % FILTER_TYPES.len()], e.include_subtypes, e.is_inverse, qname(e.name)));
    }
    let uses_custom = effective.iter().any(|e| e.0 >= 1_000_000);
    if uses_custom {
        ctx.class("non_ns0_reference_type_in_path");
    }
    let path = RelativePath {
        elements: Some(
            effective.iter().map(|(ft, inc, inv, name)| RelativePathElement { reference_type_id: type_node_id(*ft), is_inverse: *inv, include_subtypes: *inc, target_name: name.clone() }).collect(),
        ),
    };
    let start = id(c.start as usize % n);
    let got: Result<BTreeSet<String>, StatusCode> = if c.via_service {
        ctx.class("via_service");
        let mut conn = Conn::open(server.clone());
        let token = conn.session();
        let h = conn.header(&token);
        let r = ctx.guard(|| conn.call(TranslateBrowsePathsToNodeIdsRequest { request_header: h, browse_paths: Some(vec![BrowsePath { starting_node: start.clone(), relative_path: path.clone() }]) }))?;
        match r {
            SupportedMessage::TranslateBrowsePathsToNodeIdsResponse(r) => match r.results.and_then(|mut v| if v.is_empty() { None } else { Some(v.remove(0)) }) {
                Some(res) if res.status_code.is_good() => Ok(res.targets.unwrap_or_default().into_iter().map(|t| t.target_id.node_id.to_string()).collect()),
                Some(res) => Err(res.status_code),
                None => Err(StatusCode::BadUnexpectedError),
            },
            other => Err(srv::status_of(&other)),
        }
    } else {
        let a = server.address_space();
        let a = a.read();
        ctx.guard(|| find_nodes_relative_path(&a, &start, &path))?.map(|v| v.into_iter().map(|n| n.to_string()).collect())
    };
    // clean up before judging
    {
        let a = server.address_space();
        let mut a = a.write();
        for i in 0..n {
            a.delete(&id(i), true);
        }
    }
    let want: BTreeSet<String> = current.iter().map(|i| id(*i).to_string()).collect();
    let describe = || format!("nodes {:?}, references {:?}, start {}, path (type, subtypes, inverse, name) {:?}", c.nodes, truth, c.start as usize % n, effective);
    match got {
        Ok(g) => {
            if g != want {
                let sig = if uses_custom { "targets-differ/non-ns0-reference-type" } else { "targets-differ" };
                return ctx.fail(sig, format!("translation returned {:?}, the reference search {:?}; {}", g, want, describe()));
            }
        }
        Err(StatusCode::BadNoMatch) => {
            if !want.is_empty() {
                return ctx.fail("no-match-but-targets-exist", format!("BadNoMatch, but the reference search finds {:?}; {}", want, describe()));
            }
        }
        Err(e) => return ctx.fail("unexpected-status", format!("{}; {}", e, describe())),
    }
    Ok(())
}

pub fn def() -> PropDef {
    PropDef {
        id: "C31",
        rule: "3..9 fresh Object nodes in the standard address space with browse names from {0:a, 0:b, 0:c, 1:a, 1:b, 1:c} (collisions intended), up to 24 references of types Organizes / HasProperty / HasComponent / HasOrderedComponent / GeneratesEvent / a custom namespace-1 type, a starting node and a relative path of 1..4 elements whose reference type is null, any of ten namespace-0 types of the hierarchy, the custom type or an unknown custom type, with include-subtypes and inverse flags and existing / non-existing target names; through find_nodes_relative_path and through TranslateBrowsePathsToNodeIds; oracle: a breadth-first search over the harness's own reference set and subtype table gives the same set of targets (BadNoMatch iff empty); non-trivial = a path of at least 2 matched elements with a rejected sibling, or a match through a subtype; distinct = distinct case",
        assumptions: &["multiplicity and order of targets are not compared", "a null target name is not generated (the code answers BadBrowseNameInvalid; the property speaks of matching names)"],
        abort_possible: false,
        parts: |tier| vec![part("translate", tier.pick(3000, 60000), case(), run)],
    }
}

//! C40 — Republish and acknowledgement see the same retained notifications.
use crate::engine::*;
use crate::subs::SubFix;
use opcua::core::supported_message::SupportedMessage;
use opcua::server::prelude::*;
use proptest::prelude::*;
use serde::{Deserialize, Serialize};
use std::collections::BTreeMap;

#[derive(Clone, Debug, Serialize, Deserialize, PartialEq)]
pub enum Op {
    CreateSub,
    DeleteSub(u8),
    /// make subscription k send one data notification (write, publish request, tick)
    Produce(u8),
    /// subscription index, which sequence number: 0 a sent and unacknowledged one, 1 an acknowledged one, 2 never sent
    Republish(u8, u8, u8),
    /// publish request with up to three acknowledgements, each (subscription index, kind, pick):
    /// kind 0 valid, 1 already acknowledged, 2 unknown sequence number, 3 unknown subscription, 4 the same pair as an earlier
    /// valid acknowledgement of this very request (the first one makes it unknown for the second)
    Publish(Vec<(u8, u8, u8)>),
    Tick,
}

fn op() -> impl Strategy<Value = Op> {
    prop_oneof![
        1 => Just(Op::CreateSub),
        1 => (0u8..3).prop_map(Op::DeleteSub),
        8 => (0u8..3).prop_map(Op::Produce),
        8 => (0u8..3, prop_oneof![3 => Just(0u8), 2 => Just(1u8), 1 => Just(2u8)], any::<u8>()).prop_map(|(s, k, p)| Op::Republish(s, k, p)),
        6 => prop::collection::vec((0u8..3, prop_oneof![4 => Just(0u8), 1 => Just(1u8), 1 => Just(2u8), 1 => Just(3u8), 2 => Just(4u8)], any::<u8>()), 0..4).prop_map(Op::Publish),
        2 => Just(Op::Tick),
    ]
}

fn history() -> impl Strategy<Value = Vec<Op>> {
    prop::collection::vec(op(), 1..45).prop_map(|mut ops| {
        ops.insert(0, Op::Produce(0));
        ops.insert(0, Op::CreateSub);
        ops
    })
}

struct MSub {
    id: u32,
    var: usize,
    deleted: bool,
    /// sent and not acknowledged: sequence number -> original message
    unacked: BTreeMap<u32, NotificationMessage>,
    acked: Vec<u32>,
}

struct Model {
    subs: Vec<MSub>,
    /// request id -> expected acknowledgement results
    expect_results: BTreeMap<u32, Vec<StatusCode>>,
    eviction_possible: bool,
    acked_other_since: bool,
    nontrivial: bool,
}

fn absorb(ctx: &Ctx, m: &mut Model, step: usize, out: Vec<(u32, SupportedMessage)>) -> PResult {
    for (rid, msg) in out {
        if let SupportedMessage::PublishResponse(r) = &msg {
            if let Some(want) = m.expect_results.remove(&rid) {
                let got = r.results.clone().unwrap_or_default();
                if got != want {
                    return ctx.fail("ack/results", format!("step {}: acknowledgement results {:?}, expected {:?}", step, got, want));
                }
            }
            let is_data = r.notification_message.notification_data.as_ref().map(|d| !d.is_empty()).unwrap_or(false);
            if is_data {
                if let Some(s) = m.subs.iter_mut().find(|s| s.id == r.subscription_id) {
                    s.unacked.insert(r.notification_message.sequence_number, r.notification_message.clone());
                }
            }
        } else {
            m.expect_results.remove(&rid);
        }
    }
    Ok(())
}

fn run(ctx: &Ctx, ops: &Vec<Op>) -> PResult {
    run_on(ctx, ops, SubFix::new())
}

/// the same histories on a server of their own: subscription ids 1, 2, 3 meet sequence numbers 1, 2, 3
fn run_fresh(ctx: &Ctx, ops: &Vec<Op>) -> PResult {
    run_on(ctx, ops, SubFix::fresh())
}

fn run_on(ctx: &Ctx, ops: &Vec<Op>, mut fx: SubFix) -> PResult {
    let mut m = Model { subs: Vec::new(), expect_results: BTreeMap::new(), eviction_possible: false, acked_other_since: false, nontrivial: false };
    let mut counter = (0..crate::subs::N_VARS).map(|v| fx.read(v)).max().unwrap_or(0).wrapping_add(1);

    for (i, op) in ops.iter().enumerate() {
        let live: Vec<usize> = m.subs.iter().enumerate().filter(|(_, s)| !s.deleted).map(|x| x.0).collect();
        match op {
            Op::CreateSub => {
                if live.len() >= 3 {
                    continue;
                }
                let (id, ..) = match ctx.guard(|| fx.create_sub(1000.0, 50, 3000, 0, true))? {
                    Ok(x) => x,
                    Err(e) => return ctx.fail("setup/create-subscription", format!("{}", e)),
                };
                let var = m.subs.len() % crate::subs::N_VARS;
                if let Err(e) = ctx.guard(|| fx.create_item(id, var, 900 + m.subs.len() as u32, 10, true))? {
                    return ctx.fail("setup/create-item", format!("{}", e));
                }
                m.subs.push(MSub { id, var, deleted: false, unacked: BTreeMap::new(), acked: Vec::new() });
                let out = fx.tick(ctx, 0)?;
                absorb(ctx, &mut m, i, out)?;
            }
            Op::DeleteSub(k) => {
                if live.len() <= 1 {
                    continue;
                }
                let k = live[*k as usize % live.len()];
                let st = ctx.guard(|| fx.delete_sub(m.subs[k].id))?;
                if st.is_bad() {
                    return ctx.fail("setup/delete-subscription", format!("{}", st));
                }
                m.subs[k].deleted = true;
            }
            Op::Produce(k) => {
                if live.is_empty() {
                    continue;
                }
                let k = live[*k as usize % live.len()];
                if m.subs[k].unacked.len() >= 2 {
                    // at most two outstanding notifications per subscription: far below any retention capacity
                    continue;
                }
                counter = counter.wrapping_add(1);
                fx.write(m.subs[k].var, counter);
                if fx.queue_lens().0 == 0 {
                    let (rid, r, out) = fx.publish(ctx, &[], None, 0)?;
                    if r.is_ok() {
                        m.expect_results.insert(rid, Vec::new());
                    }
                    absorb(ctx, &mut m, i, out)?;
                }
                let out = fx.tick(ctx, 1000)?;
                absorb(ctx, &mut m, i, out)?;
            }
            Op::Tick => {
                let out = fx.tick(ctx, 1000)?;
                absorb(ctx, &mut m, i, out)?;
            }
            Op::Republish(k, kind, pick) => {
                if m.subs.is_empty() {
                    continue;
                }
                let k = *k as usize % m.subs.len();
                let s = &m.subs[k];
                let (seq, expect): (u32, &str) = match kind {
                    0 if !s.unacked.is_empty() => (*s.unacked.keys().nth(*pick as usize % s.unacked.len()).unwrap(), "available"),
                    1 if !s.acked.is_empty() => (s.acked[*pick as usize % s.acked.len()], "gone"),
                    _ => (1_000_000 + *pick as u32, "gone"),
                };
                let r = ctx.guard(|| fx.republish(s.id, seq))?;
                let s = &m.subs[k];
                ctx.class(&format!("republish_{}{}", expect, if s.deleted { "_deleted_subscription" } else { "" }));
                if s.deleted {
                    if r.is_ok() {
                        return ctx.fail("republish/deleted-subscription", format!("step {}: republish on deleted subscription {} returned a message", i, s.id));
                    }
                    continue;
                }
                match (expect, r) {
                    ("available", Ok(msg)) => {
                        if m.acked_other_since {
                            m.nontrivial = true;
                        }
                        if &msg != s.unacked.get(&seq).unwrap() {
                            return ctx.fail("republish/differs-from-original", format!("step {}: republished notification {} of subscription {} is not the message that was sent: {:?} vs {:?}", i, seq, s.id, msg, s.unacked.get(&seq)));
                        }
                    }
                    ("available", Err(e)) => {
                        if !(m.eviction_possible && e == StatusCode::BadMessageNotAvailable) {
                            return ctx.fail("republish/unacknowledged-not-available", format!("step {}: notification {} of subscription {} was sent, never acknowledged and the retention queue never filled, yet republish says {}", i, seq, s.id, e));
                        }
                    }
                    (_, Ok(_)) => return ctx.fail("republish/available-after-acknowledgement", format!("step {}: republish of sequence number {} on subscription {} (acknowledged or never sent) returned a message", i, seq, s.id)),
                    (_, Err(e)) => {
                        if e != StatusCode::BadMessageNotAvailable {
                            return ctx.fail("republish/wrong-status", format!("step {}: {}", i, e));
                        }
                    }
                }
            }
            Op::Publish(acks) => {
                if live.is_empty() {
                    continue;
                }
                let mut list: Vec<(u32, u32)> = Vec::new();
                let mut want: Vec<StatusCode> = Vec::new();
                // the model is updated only if the request is accepted
                let mut to_ack: Vec<(usize, u32)> = Vec::new();
                for (sk, kind, pick) in acks {
                    let k = live[*sk as usize % live.len()];
                    let s = &m.subs[k];
                    let pending: Vec<u32> = s.unacked.keys().copied().filter(|q| !to_ack.contains(&(k, *q))).collect();
                    match kind {
                        0 if !pending.is_empty() => {
                            let seq = pending[*pick as usize % pending.len()];
                            list.push((s.id, seq));
                            want.push(StatusCode::Good);
                            to_ack.push((k, seq));
                        }
                        1 if !s.acked.is_empty() => {
                            list.push((s.id, s.acked[*pick as usize % s.acked.len()]));
                            want.push(StatusCode::BadSequenceNumberUnknown);
                        }
                        4 if !to_ack.is_empty() => {
                            let (k2, seq) = to_ack[*pick as usize % to_ack.len()];
                            list.push((m.subs[k2].id, seq));
                            want.push(StatusCode::BadSequenceNumberUnknown);
                            ctx.class("duplicate_acknowledgement_in_one_request");
                        }
                        3 => {
                            list.push((4_000_000 + *pick as u32, 1));
                            want.push(StatusCode::BadSubscriptionIdInvalid);
                        }
                        _ => {
                            list.push((s.id, 2_000_000 + *pick as u32));
                            want.push(StatusCode::BadSequenceNumberUnknown);
                        }
                    }
                }
                let (rid, r, out) = fx.publish(ctx, &list, None, 0)?;
                if r.is_ok() {
                    for (k, seq) in to_ack {
                        m.subs[k].unacked.remove(&seq);
                        m.subs[k].acked.push(seq);
                        m.acked_other_since = true;
                    }
                    if !list.is_empty() {
                        m.expect_results.insert(rid, want);
                        ctx.class("publish_with_acknowledgements");
                    } else {
                        m.expect_results.insert(rid, Vec::new());
                    }
                }
                absorb(ctx, &mut m, i, out)?;
            }
        }
        // eviction only happens when the retention queue exceeds 4 x subscriptions; note when it comes close
        let live_n = m.subs.iter().filter(|s| !s.deleted).count();
        if fx.queue_lens().1 >= 4 * live_n.max(1) {
            m.eviction_possible = true;
            ctx.class("retention_queue_reached_capacity");
        }
    }
    if m.nontrivial {
        ctx.nontrivial();
    }
    Ok(())
}

pub fn def() -> PropDef {
    PropDef {
        id: "C40",
        rule: "histories of up to 47 operations (on the worker's server, and on a fresh server each so that subscription ids are as small as sequence numbers) on one session with up to 3 subscriptions (one item each): produce a data notification (at most two unacknowledged per subscription), republish a sent / acknowledged / never-sent sequence number, publish requests carrying up to three acknowledgements (valid, already acknowledged, the same pair twice in one request, unknown sequence number, unknown subscription), delete a subscription, idle ticks; model: sent-and-unacknowledged (subscription, sequence number) -> original message; oracle: republish returns a message equal to the original while the pair is in the set, BadMessageNotAvailable after a Good acknowledgement or for unknown numbers, acknowledgement results are Good / BadSequenceNumberUnknown / BadSubscriptionIdInvalid as the model says and leave the other members republishable; non-trivial = a republish of an unacknowledged notification after an acknowledgement of a different one; distinct = distinct history",
        assumptions: &[
            "eviction is allowed by the property: availability of an unacknowledged notification is asserted only while the retention queue (which also holds keep-alives) never reached its capacity of 4 x subscriptions during the history",
            "keep-alive messages are not notifications and are not modelled",
        ],
        abort_possible: false,
        parts: |tier| vec![part("retention_history", tier.pick(1200, 30000), history(), run), part("retention_history_on_a_fresh_server", tier.pick(150, 4000), history(), run_fresh)],
    }
}

//! C37 — Reconnect back-off follows its policy and never overflows.
use crate::engine::*;
use opcua::client::verif::SessionRetryPolicy;
use proptest::prelude::*;
use serde::{Deserialize, Serialize};
use std::time::Duration;

#[derive(Clone, Debug, Serialize, Deserialize)]
pub struct Case {
    pub initial: (u64, u32),
    pub max: (u64, u32),
    pub limit: Option<u32>,
    pub take: u16,
}

fn dur(d: (u64, u32)) -> Duration {
    Duration::new(d.0, d.1 % 1_000_000_000)
}

fn check(ctx: &Ctx, c: &Case) -> PResult {
    let initial = dur(c.initial);
    let max = dur(c.max);
    let policy = SessionRetryPolicy::new(max, c.limit, initial);
    // reference iterator with saturating arithmetic
    let mut expect = Vec::new();
    let mut cur = initial;
    let mut n = 0u32;
    let mut doubled_past = false;
    for _ in 0..c.take {
        if let Some(l) = c.limit {
            if n >= l {
                break;
            }
        }
        expect.push(cur);
        let dbl = cur.checked_mul(2);
        if dbl.map(|d| d > max).unwrap_or(true) {
            doubled_past = true;
        }
        cur = dbl.unwrap_or(Duration::MAX).min(max);
        n += 1;
    }
    if doubled_past {
        ctx.nontrivial();
    }
    if initial > Duration::MAX / 2 || max > Duration::MAX / 2 {
        ctx.class("beyond_half_duration_max");
    }
    if max < initial {
        ctx.class("max_below_initial");
    }
    let got: Vec<Duration> = ctx.guard(|| policy.verif_backoff().take(c.take as usize).collect())?;
    if got.len() != expect.len() {
        return ctx.fail("length", format!("policy(initial {:?}, max {:?}, limit {:?}) yielded {} delays in {} polls, expected {}", initial, max, c.limit, got.len(), c.take, expect.len()));
    }
    for (i, (g, e)) in got.iter().zip(expect.iter()).enumerate() {
        if g != e {
            return ctx.fail("value", format!("policy(initial {:?}, max {:?}, limit {:?}): delay #{} is {:?}, expected {:?}", initial, max, c.limit, i, g, e));
        }
    }
    // an exhausted limited policy stays exhausted
    if let Some(l) = c.limit {
        if (l as usize) < c.take as usize {
            let more = ctx.guard(|| policy.verif_backoff().skip(l as usize).next())?;
            if more.is_some() {
                return ctx.fail("length", format!("limit {} but a further delay {:?} was yielded", l, more));
            }
        }
    }
    Ok(())
}

fn dur_strategy() -> impl Strategy<Value = (u64, u32)> {
    prop_oneof![
        Just((0u64, 0u32)),
        Just((0, 1)),
        Just((0, 1_000_000)),
        Just((u64::MAX / 2, 0)),
        Just((u64::MAX / 2, 500_000_000)),
        Just((u64::MAX / 2 + 1, 0)),
        Just((u64::MAX, 999_999_999)),
        Just((u64::MAX - 1, 0)),
        (0u64..100_000, 0u32..1_000_000_000),
        (any::<u64>(), 0u32..1_000_000_000),
        (0u64..64).prop_map(|s| (1u64 << s, 0u32)),
    ]
}

pub fn def() -> PropDef {
    PropDef {
        id: "C37",
        rule: "initial / maximum durations over the Duration edge set (0, 1 ns, 1 ms, u64::MAX/2 s, Duration::MAX, powers of two, max < initial) x retry limit {None, 0, 1, 10, u32::MAX, random} x up to 200 polls, against a reference iterator with saturating arithmetic; non-trivial = some doubling exceeds the maximum or overflows; distinct = distinct (initial, max, limit, polls)",
        assumptions: &["for max < initial the first delay is still the initial delay (property text)"],
        abort_possible: false,
        parts: |tier| {
            vec![part(
                "backoff",
                tier.pick(30_000, 30_000_000),
                (dur_strategy(), dur_strategy(), prop_oneof![Just(None), Just(Some(0u32)), Just(Some(1)), Just(Some(10)), Just(Some(u32::MAX)), (0u32..300).prop_map(Some)], 0u16..200)
                    .prop_map(|(initial, max, limit, take)| Case { initial, max, limit, take }),
                check,
            )]
        },
    }
}

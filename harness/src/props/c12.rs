//! C12 — Sequence numbers increase by one per chunk and replays are rejected.
use crate::engine::*;
use crate::fixtures;
use crate::props::c07::payload_message;
use crate::srv::{self, Peer, SrvOpts};
use bytes::BytesMut;
use opcua::client::verif::{SendBuffer, VerifTransport};
use opcua::core::comms::chunker::Chunker;
use opcua::core::comms::message_chunk::{MessageChunk, MessageChunkType, MessageIsFinalType};
use opcua::core::comms::message_writer::MessageWriter;
use opcua::core::comms::secure_channel::{Role, SecureChannel};
use opcua::core::comms::tcp_codec::{Message, TcpCodec};
use opcua::core::supported_message::SupportedMessage;
use opcua::server::prelude::*;
use proptest::prelude::*;
use serde::{Deserialize, Serialize};
use std::cell::RefCell;
use std::collections::BTreeSet;
use tokio_util::codec::Decoder;

// ---- sender ---------------------------------------------------------------------------------------

#[derive(Clone, Debug, Serialize, Deserialize)]
pub struct SendCase {
    pub server_writer: bool,
    pub sizes: Vec<u32>,
}

fn parse_chunks(ctx: &Ctx, bytes: &[u8], ch: &SecureChannel) -> Result<Vec<(u32, u32, u8)>, Failure> {
    let mut codec = TcpCodec::new(DecodingOptions { max_message_size: 0, ..DecodingOptions::default() });
    let mut buf = BytesMut::from(bytes);
    let mut out = Vec::new();
    loop {
        match codec.decode(&mut buf) {
            Ok(Some(Message::Chunk(c))) => {
                let info = c.chunk_info(ch).map_err(|e| Failure { sig: "sender/chunk_info".into(), detail: e.to_string() })?;
                out.push((info.sequence_header.sequence_number, info.sequence_header.request_id, c.data[3]));
            }
            Ok(Some(_)) => return ctx.fail("sender/not-a-chunk", "sender emitted a non-chunk frame"),
            Ok(None) => break,
            Err(e) => return ctx.fail("sender/framing", e.to_string()),
        }
    }
    if !buf.is_empty() {
        return ctx.fail("sender/trailing-bytes", format!("{} bytes after the last frame", buf.len()));
    }
    Ok(out)
}

fn sender(ctx: &Ctx, c: &SendCase) -> PResult {
    use futures::FutureExt;
    let ch = fixtures::plain_channel(if c.server_writer { Role::Server } else { Role::Client });
    let mut wire = Vec::new();
    let mut ids = Vec::new();
    let mut expected_chunks = 0usize;
    if c.server_writer {
        let mut w = MessageWriter::new(65535, 0, 0);
        for n in &c.sizes {
            let id = w.next_request_id();
            ids.push(id);
            let msg = payload_message(*n as usize % 40_000);
            if let Err(e) = ctx.guard(|| w.write(id, msg, &ch))? {
                return ctx.fail("sender/write", e.to_string());
            }
            wire.extend(w.bytes_to_write());
        }
        expected_chunks = c.sizes.len();
    } else {
        let mut sb = SendBuffer::new(8196, 0, 0);
        let mut sink: Vec<u8> = Vec::new();
        for n in &c.sizes {
            let id = sb.next_request_id();
            ids.push(id);
            let msg = payload_message(*n as usize % 40_000);
            expected_chunks += Chunker::encode(1, id, 0, 8196, &ch, &msg).map(|c| c.len()).unwrap_or(0);
            if let Err(e) = ctx.guard(|| sb.write(id, msg, &ch))? {
                return ctx.fail("sender/write", e.to_string());
            }
            let mut guard = 0;
            loop {
                guard += 1;
                if guard > 10_000 {
                    return ctx.fail("sender/no-progress", "send buffer does not drain");
                }
                if sb.should_encode_chunks() {
                    let _ = sb.encode_next_chunk(&ch);
                }
                if sb.can_read() {
                    let _ = sb.read_into_async(&mut sink).now_or_never();
                } else {
                    break;
                }
            }
        }
        wire = sink;
    }
    let chunks = parse_chunks(ctx, &wire, &ch)?;
    if chunks.len() >= 3 && c.sizes.len() >= 2 {
        ctx.nontrivial();
    }
    ctx.class(if c.server_writer { "message_writer" } else { "send_buffer" });
    if chunks.len() != expected_chunks {
        return ctx.fail("sender/chunk-count", format!("{} chunks on the wire, expected {}", chunks.len(), expected_chunks));
    }
    for w in chunks.windows(2) {
        if w[1].0 != w[0].0.wrapping_add(1) {
            return ctx.fail("sender/sequence-gap", format!("sequence numbers {} then {} on successive chunks ({} messages)", w[0].0, w[1].0, c.sizes.len()));
        }
    }
    let distinct: BTreeSet<u32> = ids.iter().copied().collect();
    if distinct.len() != ids.len() {
        return ctx.fail("sender/request-id-reused", format!("request ids {:?}", ids));
    }
    // every chunk of one message carries that message's id, messages in order
    let mut seen: Vec<u32> = Vec::new();
    for (_, id, _) in &chunks {
        if seen.last() != Some(id) {
            if seen.contains(id) {
                return ctx.fail("sender/request-id-interleaved", format!("request id {} reappears after another message", id));
            }
            seen.push(*id);
        }
    }
    if seen != ids {
        return ctx.fail("sender/request-ids", format!("ids on the wire {:?}, assigned {:?}", seen, ids));
    }
    Ok(())
}

// ---- receiver -------------------------------------------------------------------------------------

#[derive(Clone, Debug, Serialize, Deserialize)]
pub enum Unit {
    /// a genuine message of about n payload bytes
    Good(u32),
    /// the exact chunks of an earlier good message again (index scaled over the good messages sent so far)
    Replay(u16),
    /// a fresh message with one fault: 0 drop a chunk, 1 swap two chunks, 2 duplicate a chunk, 3 other request id on one chunk,
    /// 4 other channel id on one chunk, 5 sequence number gap before it, 6 request id 0 on the first chunk only
    Faulty(u32, u8, u16),
}

#[derive(Clone, Debug, Serialize, Deserialize)]
pub struct RecvCase {
    pub client_receiver: bool,
    pub units: Vec<Unit>,
    /// Some(k): the sender's sequence numbers jump to u32::MAX - k before the first unit, so that the history crosses
    /// the 32-bit boundary (a forward jump is legal, numbers only have to increase)
    #[serde(default)]
    pub near_wrap: Option<u8>,
}

/// Chunks of a message (policy None) numbered from `*seq` with wrapping arithmetic; the second value tells whether the
/// numbering crossed the 32-bit boundary. (Chunker::encode itself cannot number across the boundary.)
fn chunks_wrapping(ch: &SecureChannel, seq: &mut u32, request_id: u32, m: &SupportedMessage) -> (Vec<MessageChunk>, bool) {
    let mut chunks = Chunker::encode(1, request_id, 0, 8196, ch, m).expect("encode");
    let mut wrapped = false;
    for (i, c) in chunks.iter_mut().enumerate() {
        let s = seq.wrapping_add(i as u32);
        if s < *seq {
            wrapped = true;
        }
        // MSG chunk, policy None: 12 header + 4 token id, then the sequence number
        c.data[16..20].copy_from_slice(&s.to_le_bytes());
    }
    let next = seq.wrapping_add(chunks.len() as u32);
    if next < *seq {
        wrapped = true;
    }
    *seq = next;
    (chunks, wrapped)
}

fn peer_chunks(peer: &mut Peer, m: &SupportedMessage, wrapped: &mut bool) -> Vec<MessageChunk> {
    let id = peer.next_request_id;
    peer.next_request_id += 1;
    let mut seq = peer.next_seq;
    let (chunks, w) = chunks_wrapping(&peer.channel, &mut seq, id, m);
    peer.next_seq = seq;
    *wrapped |= w;
    chunks
}

thread_local! {
    static SERVER: RefCell<Option<Server>> = const { RefCell::new(None) };
}

fn read_request(handle: u32, n: usize) -> SupportedMessage {
    // a Read of n nodes: large n gives several chunks. No session exists, so the server answers with a
    // ServiceFault carrying the request handle, which identifies the delivered message.
    let mut h = RequestHeader::dummy();
    h.request_handle = handle;
    ReadRequest { request_header: h, max_age: 0.0, timestamps_to_return: TimestampsToReturn::Both, nodes_to_read: Some((0..n).map(|i| ReadValueId::from(NodeId::new(2, format!("node-number-{:06}-{}", i, "x".repeat(60))))).collect()) }.into()
}

fn set_channel_id(chunk: &mut MessageChunk, id: u32) {
    chunk.data[8..12].copy_from_slice(&id.to_le_bytes());
}
fn set_request_id(chunk: &mut MessageChunk, id: u32) {
    // MSG chunk: 12 header + 4 token + 4 sequence number, then the request id
    chunk.data[20..24].copy_from_slice(&id.to_le_bytes());
}

fn clone_chunks(v: &[MessageChunk]) -> Vec<MessageChunk> {
    v.iter().map(|c| MessageChunk { data: c.data.clone() }).collect()
}

fn apply_fault(chunks: &mut Vec<MessageChunk>, kind: u8, pos: u16) -> &'static str {
    let n = chunks.len();
    let i = (pos as usize * n) >> 16;
    match if kind == 6 { 6 } else { kind % 5 } {
        6 if n >= 2 => {
            // the first chunk names request id 0, the others the genuine id
            set_request_id(&mut chunks[0], 0);
            "first-chunk-request-id-zero"
        }
        0 if n >= 2 => {
            // drop an intermediate chunk (the last one must stay so that the message "completes")
            chunks.remove(i.min(n - 2));
            "drop-chunk"
        }
        1 if n >= 3 => {
            // swap two intermediate chunks; the final chunk stays last so the receiver attempts to assemble
            let i = i.min(n - 3);
            chunks.swap(i, i + 1);
            "swap-chunks"
        }
        2 => {
            let d = MessageChunk { data: chunks[i].data.clone() };
            chunks.insert(i, d);
            "duplicate-chunk"
        }
        3 if n >= 2 => {
            let j = i.max(1);
            set_request_id(&mut chunks[j], 0xdead_0000 + pos as u32);
            "foreign-request-id"
        }
        4 => {
            set_channel_id(&mut chunks[i], 0x0bad_0000 + pos as u32);
            "foreign-channel-id"
        }
        _ => {
            let d = MessageChunk { data: chunks[i].data.clone() };
            chunks.insert(i, d);
            "duplicate-chunk"
        }
    }
}

fn server_receiver(ctx: &Ctx, c: &RecvCase) -> PResult {
    let mut t = SERVER.with(|s| {
        let mut s = s.borrow_mut();
        if s.is_none() {
            *s = Some(srv::server(&SrvOpts { max_chunk_count: 0, max_message_size: 0, ..SrvOpts::default() }));
        }
        s.as_ref().unwrap().new_transport()
    });
    let mut peer = Peer::new();
    if let Err(e) = peer.handshake(&mut t) {
        return ctx.fail("setup/handshake", e);
    }
    let mut good_sent: Vec<(u32, Vec<MessageChunk>)> = Vec::new(); // (handle, chunks) accepted earlier
    let mut delivered: Vec<u32> = Vec::new();
    let mut handle = 100u32;
    let mut nontrivial = false;
    let mut wrapped = false;
    if let Some(k) = c.near_wrap {
        peer.next_seq = u32::MAX - k as u32;
        ctx.class("near_wrap");
    }
    'units: for (ui, u) in c.units.iter().enumerate() {
        handle += 1;
        let (chunks, must_not_deliver, what): (Vec<MessageChunk>, Option<u32>, String) = match u {
            Unit::Good(n) => {
                let m = read_request(handle, 1 + (*n as usize % 300));
                (peer_chunks(&mut peer, &m, &mut wrapped), None, "good".into())
            }
            Unit::Replay(k) => {
                if good_sent.is_empty() {
                    continue;
                }
                let (h, chunks) = &good_sent[(*k as usize * good_sent.len()) >> 16];
                if good_sent.iter().any(|g| g.1.len() >= 2) {
                    nontrivial = true;
                }
                (clone_chunks(chunks), Some(*h), "replay".into())
            }
            Unit::Faulty(n, kind, pos) => {
                let m = read_request(handle, 1 + (*n as usize % 300));
                let mut chunks = if *kind % 6 == 5 {
                    peer.next_seq = peer.next_seq.wrapping_add(3);
                    // a gap *before* a message is legal (sequence numbers only need to increase); used as a control
                    let ch = peer_chunks(&mut peer, &m, &mut wrapped);
                    (ch, None, "gap-before-message".to_string())
                } else {
                    let ch = peer_chunks(&mut peer, &m, &mut wrapped);
                    (ch, Some(handle), String::new())
                };
                if chunks.1.is_some() {
                    let name = apply_fault(&mut chunks.0, *kind, *pos);
                    chunks.2 = name.to_string();
                    if name == "duplicate-chunk" || name == "swap-chunks" {
                        // de-duplication and re-ordering by sequence number inside one message are allowed:
                        // delivery of the genuine message is then not a fault
                        chunks.1 = None;
                    }
                }
                chunks
            }
        };
        ctx.class(&what);
        let genuine = matches!(u, Unit::Good(_)) || what == "gap-before-message";
        let n_chunks = chunks.len();
        let kept = clone_chunks(&chunks);
        for ch in chunks {
            let (r, out) = ctx.guard(|| t.verif_process_chunk(ch))?;
            for (_, m) in &out {
                let h = m.request_handle();
                if delivered.contains(&h) {
                    return ctx.fail("receiver/server/delivered-twice", format!("unit {} ({}): request handle {} was answered a second time", ui, what, h));
                }
                if Some(h) == must_not_deliver {
                    return ctx.fail(format!("receiver/server/accepted/{}", what), format!("unit {}: a message with fault '{}' ({} chunks) was delivered and answered", ui, what, n_chunks));
                }
                delivered.push(h);
                if genuine && h == handle {
                    good_sent.push((h, clone_chunks(&kept)));
                }
            }
            if r.is_err() {
                ctx.class("connection_closed");
                break 'units;
            }
        }
        if wrapped {
            ctx.class("sequence_numbers_wrapped");
        }
        // once the numbers have crossed the 32-bit boundary delivery is not required (wrap-around is not implemented;
        // refusing is safe), but replays and double delivery stay forbidden
        if genuine && !wrapped && !delivered.contains(&handle) {
            return ctx.fail("receiver/server/genuine-not-delivered", format!("unit {} ({}): a genuine message of {} chunks with fresh sequence numbers was not answered", ui, what, n_chunks));
        }
    }
    if nontrivial {
        ctx.nontrivial();
    }
    Ok(())
}

fn client_receiver(ctx: &Ctx, c: &RecvCase) -> PResult {
    // both ends know the channel id, as after an OpenSecureChannel exchange
    let mut cch = fixtures::plain_channel(Role::Client);
    cch.set_secure_channel_id(7);
    let ch = std::sync::Arc::new(opcua::sync::RwLock::new(cch));
    let mut t = VerifTransport::new(ch.clone(), 50, 50, 64);
    let mut sb = SendBuffer::new(65535, 0, 0);
    let mut server_ch = fixtures::plain_channel(Role::Server);
    server_ch.set_secure_channel_id(7);
    let mut seq = match c.near_wrap {
        Some(k) => u32::MAX - k as u32,
        None => 1u32,
    };
    let mut wrapped = false;
    let far = std::time::Instant::now() + std::time::Duration::from_secs(3600);
    let mut good: Vec<(u32, Vec<MessageChunk>)> = Vec::new();
    let mut nontrivial = false;
    for (ui, u) in c.units.iter().enumerate() {
        // every unit answers a freshly submitted request
        let Some(mut rx) = t.submit(payload_message(1), far) else { break };
        let Some((_, id)) = t.pump(&mut sb) else { return ctx.fail("receiver/client/setup", "request was not picked up") };
        let (n, replay, fault) = match u {
            Unit::Good(n) => (*n, None, None),
            Unit::Replay(k) => (0, Some(*k), None),
            Unit::Faulty(n, kind, pos) => (*n, None, Some((*kind, *pos))),
        };
        let resp: SupportedMessage = {
            let mut r = ReadResponse { response_header: ResponseHeader::new_good(&RequestHeader::dummy()), results: Some((0..(1 + n as usize % 300)).map(|i| DataValue::value_only(format!("value-{}-{}-{}", ui, i, "y".repeat(50)))).collect()), diagnostic_infos: None };
            r.response_header.request_handle = ui as u32;
            r.into()
        };
        let (mut chunks, expect_not_delivered, what): (Vec<MessageChunk>, bool, &str) = if let Some(k) = replay {
            if good.is_empty() {
                continue;
            }
            // an old response again, re-labelled with the pending request id would need re-signing; replay it verbatim
            let (_, ch) = &good[(k as usize * good.len()) >> 16];
            nontrivial = true;
            (clone_chunks(ch), true, "replay")
        } else {
            let (ch, w) = chunks_wrapping(&server_ch, &mut seq, id, &resp);
            wrapped |= w;
            (ch, false, "good")
        };
        let mut what = what;
        let mut expect_not_delivered = expect_not_delivered;
        if let Some((kind, pos)) = fault {
            if kind % 6 != 5 {
                what = apply_fault(&mut chunks, kind, pos);
                expect_not_delivered = what != "duplicate-chunk" && what != "swap-chunks";
            }
        }
        ctx.class(what);
        let kept = clone_chunks(&chunks);
        let mut closed = false;
        for chn in chunks {
            let r = ctx.guard(|| t.handle_incoming_message(Message::Chunk(chn)))?;
            if r.is_err() {
                closed = true;
                break;
            }
        }
        match rx.try_recv() {
            Ok(Ok(m)) => {
                if expect_not_delivered {
                    return ctx.fail(format!("receiver/client/accepted/{}", what), format!("unit {}: a response with fault '{}' completed the request", ui, what));
                }
                if m != resp {
                    return ctx.fail("receiver/client/wrong-message", format!("unit {}: request {} completed with a message that is not the response built for it", ui, id));
                }
                good.push((id, kept));
            }
            Ok(Err(_)) | Err(_) => {
                if what == "good" && !closed && !wrapped {
                    return ctx.fail("receiver/client/genuine-not-delivered", format!("unit {}: genuine response of {} chunks did not complete request {}", ui, kept.len(), id));
                }
            }
        }
        if closed {
            ctx.class("connection_closed");
            break;
        }
    }
    if nontrivial {
        ctx.nontrivial();
    }
    let _ = MessageChunkType::Message;
    let _ = MessageIsFinalType::Final;
    Ok(())
}

fn receiver(ctx: &Ctx, c: &RecvCase) -> PResult {
    if c.client_receiver {
        in_runtime(|| client_receiver(ctx, c))
    } else {
        server_receiver(ctx, c)
    }
}

fn unit() -> impl Strategy<Value = Unit> {
    prop_oneof![
        4 => prop_oneof![0u32..5, 90u32..300].prop_map(Unit::Good),
        2 => any::<u16>().prop_map(Unit::Replay),
        3 => (prop_oneof![0u32..5, 90u32..300], 0u8..7, any::<u16>()).prop_map(|(n, k, p)| Unit::Faulty(n, k, p)),
    ]
}

pub fn def() -> PropDef {
    PropDef {
        id: "C12",
        rule: "sender: 1..20 messages of 1..5 chunks through the real client SendBuffer and the server MessageWriter, the wire bytes re-framed and checked for +1 sequence numbers across the whole history and pairwise distinct request ids; receiver: histories of genuine multi-chunk messages, verbatim replays of earlier accepted messages, and messages with one fault (dropped / swapped / duplicated chunk, foreign request id or channel id, request id 0 on the first chunk only, sequence gap) delivered to the real server transport (after HEL + OPN) and to the real client transport state, a quarter of the histories with sequence numbers that start up to 13 below u32::MAX and cross the 32-bit boundary; oracle on delivered messages: no message answered twice, faulty or replayed messages never delivered, genuine ones delivered; non-trivial = a replay after an accepted multi-chunk message, or >= 3 chunks over >= 2 messages; distinct = distinct history",
        assumptions: &["policy None (numbering logic is policy independent; C07/C08 cover security)", "a duplicated chunk inside one message may be de-duplicated: delivering the genuine message is then allowed", "an error returned by the receiver closes the connection, as the reading loops do", "sequence number wrap-around is not implemented by the stack: once the sender's numbers have crossed the 32-bit boundary a refusal of genuine messages is accepted, replays and double delivery are not"],
        abort_possible: false,
        parts: |tier| {
            vec![
                part("sender", tier.pick(600, 80_000), (any::<bool>(), proptest::collection::vec(prop_oneof![0u32..400, 8000u32..40_000], 1..20)).prop_map(|(server_writer, sizes)| SendCase { server_writer, sizes }), sender),
                part("receiver", tier.pick(2_500, 320_000), (any::<bool>(), proptest::collection::vec(unit(), 1..10), prop_oneof![3 => Just(None), 1 => (0u8..14).prop_map(Some)]).prop_map(|(client_receiver, units, near_wrap)| RecvCase { client_receiver, units, near_wrap }), receiver),
            ]
        },
    }
}

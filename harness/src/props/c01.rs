//! C01 — Binary encoding round-trips every valid value exactly.
use crate::engine::*;
use crate::filler::{hex, Filler};
use crate::service_fillers::*;
use opcua::core::supported_message::SupportedMessage;
use opcua::types::*;
use proptest::prelude::*;
use serde::{Deserialize, Serialize};
use std::fmt::Debug;
use std::io::Cursor;

#[derive(Clone, Debug, Serialize, Deserialize)]
pub struct Case {
    /// which type (index into the part's table)
    pub kind: u16,
    /// bytes that drive the structured generator (see filler.rs)
    pub data: Vec<u8>,
}

const SENT_A: u32 = 0xA5A5_A5A5;
const SENT_B: u32 = 0x5A5A_5A5A;

/// Debug rendering with the one normalisation that can occur at any nesting depth: the dimensions of
/// an *empty* variant array are ignored (property text: "dimensions of empty arrays").
pub fn norm_debug<T: Debug>(v: &T) -> String {
    let s = format!("{:?}", v);
    let marker = "values: [], dimensions: ";
    let mut out = String::with_capacity(s.len());
    let mut rest = s.as_str();
    while let Some(i) = rest.find(marker) {
        out.push_str(&rest[..i + marker.len()]);
        let after = &rest[i + marker.len()..];
        if let Some(stripped) = after.strip_prefix("None") {
            out.push('_');
            rest = stripped;
        } else if after.starts_with("Some([") {
            match after.find("])") {
                Some(j) => {
                    out.push('_');
                    rest = &after[j + 2..];
                }
                None => rest = after,
            }
        } else {
            rest = after;
        }
    }
    out.push_str(rest);
    out
}

fn short<T: Debug>(v: &T) -> String {
    let s = format!("{:?}", v);
    if s.len() > 600 {
        format!("{}…", s.chars().take(600).collect::<String>())
    } else {
        s
    }
}

/// The five oracle clauses of DESIGN.md section 5 / C01. `norm` is a top-level normalisation (identity
/// for most types).
pub fn roundtrip<T>(ctx: &Ctx, name: &str, v: &T, norm: &dyn Fn(&T) -> T) -> PResult
where
    T: BinaryEncoder<T> + Debug + PartialEq + Clone,
{
    let opts = DecodingOptions::default();
    let predicted = v.byte_len();
    let mut buf = Cursor::new(Vec::with_capacity(predicted + 8));
    let _ = write_u32(&mut buf, SENT_A);
    let n = match v.encode(&mut buf) {
        Ok(n) => n,
        Err(e) => return ctx.fail(format!("encode-error/{}", name), format!("encode of a valid value failed with {}: {}", e, short(v))),
    };
    let written = buf.position() as usize - 4;
    let _ = write_u32(&mut buf, SENT_B);
    if n != predicted || written != predicted {
        return ctx.fail(format!("byte_len/{}", name), format!("byte_len()={} encode returned {} bytes written {} for {}", predicted, n, written, short(v)));
    }
    let bytes = buf.into_inner();
    let mut rd = Cursor::new(bytes.as_slice());
    let _ = read_u32(&mut rd);
    let v1 = match T::decode(&mut rd, &opts) {
        Ok(v1) => v1,
        Err(e) => return ctx.fail(format!("decode-error/{}", name), format!("decode of own encoding failed with {}: value {} bytes {}", e, short(v), hex(&bytes))),
    };
    let consumed = rd.position() as usize - 4;
    if consumed != predicted {
        return ctx.fail(format!("consumed/{}", name), format!("decoder consumed {} of {} bytes for {} (bytes {})", consumed, predicted, short(v), hex(&bytes)));
    }
    match read_u32(&mut rd) {
        Ok(s) if s == SENT_B => {}
        other => return ctx.fail(format!("sentinel/{}", name), format!("trailing sentinel read back as {:?} after {}", other, short(v))),
    }
    let (nv, nv1) = (norm(v), norm(&v1));
    if nv1 != nv {
        let (d, d1) = (norm_debug(&nv), norm_debug(&nv1));
        if d != d1 {
            return ctx.fail(format!("value/{}", name), format!("decoded value differs: sent {} got {}", short(&nv), short(&nv1)));
        }
        ctx.class("equal_modulo_nan_or_empty_array_dimensions");
    }
    // second generation: a decoded value must itself be re-encodable and re-decodable
    let p1 = v1.byte_len();
    let mut buf1 = Cursor::new(Vec::with_capacity(p1));
    let n1 = match v1.encode(&mut buf1) {
        Ok(n) => n,
        Err(e) => return ctx.fail(format!("gen2-encode-error/{}", name), format!("re-encode of decoded value failed with {}: {}", e, short(&v1))),
    };
    let b1 = buf1.into_inner();
    if n1 != p1 || b1.len() != p1 {
        return ctx.fail(format!("gen2-byte_len/{}", name), format!("decoded value: byte_len()={} encode returned {} wrote {}: {}", p1, n1, b1.len(), short(&v1)));
    }
    let mut rd1 = Cursor::new(b1.as_slice());
    let v2 = match T::decode(&mut rd1, &opts) {
        Ok(v2) => v2,
        Err(e) => return ctx.fail(format!("gen2-decode-error/{}", name), format!("decode of re-encoded value failed with {}: {} bytes {}", e, short(&v1), hex(&b1))),
    };
    if rd1.position() as usize != b1.len() {
        return ctx.fail(format!("gen2-consumed/{}", name), format!("second generation: decoder consumed {} of {} bytes; value {} bytes {}", rd1.position(), b1.len(), short(&v1), hex(&b1)));
    }
    let (m1, m2) = (norm(&v1), norm(&v2));
    if m1 != m2 && norm_debug(&m1) != norm_debug(&m2) {
        return ctx.fail(format!("gen2-value/{}", name), format!("second generation differs: {} vs {}", short(&m1), short(&m2)));
    }
    Ok(())
}

fn id<T: Clone>(v: &T) -> T {
    v.clone()
}

const BUILTIN_KINDS: &[&str] = &[
    "Boolean", "SByte", "Byte", "Int16", "UInt16", "Int32", "UInt32", "Int64", "UInt64", "Float", "Double", "String", "DateTime", "Guid", "StatusCode",
    "ByteString", "QualifiedName", "LocalizedText", "NodeId", "ExpandedNodeId", "ExtensionObject", "DiagnosticInfo", "DataValue", "Variant", "VariantArray",
    "OptVecVariant", "OptVecString",
];

fn classify_variant(ctx: &Ctx, v: &Variant, depth: usize) {
    match v {
        Variant::Array(a) => {
            ctx.nontrivial();
            match (&a.dimensions, a.values.len()) {
                (None, 0) => ctx.class("array_empty_no_dims"),
                (Some(_), 0) => ctx.class("array_empty_with_dims"),
                (Some(d), _) if d.len() > 1 => ctx.class("array_multi_dim"),
                (Some(_), _) => ctx.class("array_one_dim_with_dims"),
                (None, _) => ctx.class("array_single"),
            }
            for x in &a.values {
                classify_variant(ctx, x, depth + 1);
            }
        }
        Variant::Variant(inner) => {
            ctx.nontrivial();
            ctx.class(&format!("nested_variant_depth_{}", depth + 1));
            classify_variant(ctx, inner, depth + 1);
        }
        Variant::DataValue(dv) => {
            ctx.nontrivial();
            ctx.class("variant_datavalue");
            if let Some(x) = &dv.value {
                classify_variant(ctx, x, depth + 1);
            }
        }
        Variant::ExtensionObject(_) => {
            ctx.nontrivial();
            ctx.class("variant_extension_object");
        }
        _ => {}
    }
}

fn builtin(ctx: &Ctx, c: &Case) -> PResult {
    let mut f = Filler::new(&c.data);
    let k = c.kind as usize % BUILTIN_KINDS.len();
    let name = BUILTIN_KINDS[k];
    ctx.class(&format!("kind_{}", name));
    match k {
        0 => roundtrip(ctx, name, &f.bool(), &id),
        1 => roundtrip(ctx, name, &(f.i64_biased() as i8), &id),
        2 => roundtrip(ctx, name, &(f.u64_biased() as u8), &id),
        3 => roundtrip(ctx, name, &(f.i64_biased() as i16), &id),
        4 => roundtrip(ctx, name, &(f.u64_biased() as u16), &id),
        5 => roundtrip(ctx, name, &(f.i64_biased() as i32), &id),
        6 => roundtrip(ctx, name, &(f.u64_biased() as u32), &id),
        7 => roundtrip(ctx, name, &f.i64_biased(), &id),
        8 => roundtrip(ctx, name, &f.u64_biased(), &id),
        9 => roundtrip(ctx, name, &f.f32_biased(true), &id),
        10 => roundtrip(ctx, name, &f.f64_biased(true), &id),
        11 => {
            let s = f.ua_string();
            if s.is_null() || s.as_ref().is_empty() {
                ctx.nontrivial();
                ctx.class(if s.is_null() { "string_null" } else { "string_empty" });
            }
            roundtrip(ctx, name, &s, &id)
        }
        12 => {
            // any tick count; out-of-range values are clamped on the wire (documented normalisation)
            let t = f.date_time_ticks_any();
            let end = DateTime::endtimes_ticks();
            if t < 0 || t > end {
                ctx.nontrivial();
                ctx.class("datetime_out_of_range");
            }
            let v = DateTime::from(t);
            let clamp = |d: &DateTime| {
                let t = d.ticks();
                if t < 0 {
                    DateTime::from(0i64)
                } else if t > DateTime::endtimes_ticks() {
                    DateTime::endtimes()
                } else {
                    *d
                }
            };
            roundtrip(ctx, name, &v, &clamp)
        }
        13 => roundtrip(ctx, name, &f.guid(), &id),
        14 => roundtrip(ctx, name, &f.status_code(), &id),
        15 => roundtrip(ctx, name, &f.byte_string(), &id),
        16 => roundtrip(ctx, name, &f.qualified_name(), &id),
        17 => {
            // null and empty parts are equivalent on the wire (documented normalisation)
            let part = |f: &mut Filler| match f.below(3) {
                0 => UAString::null(),
                1 => UAString::from(""),
                _ => UAString::from(f.text(6)),
            };
            let v = LocalizedText { locale: part(&mut f), text: part(&mut f) };
            ctx.nontrivial();
            let norm = |l: &LocalizedText| LocalizedText {
                locale: if l.locale.is_empty() { UAString::null() } else { l.locale.clone() },
                text: if l.text.is_empty() { UAString::null() } else { l.text.clone() },
            };
            roundtrip(ctx, name, &v, &norm)
        }
        18 => {
            let v = f.node_id(true);
            ctx.nontrivial();
            if let Identifier::Numeric(n) = v.identifier {
                ctx.class(if v.namespace == 0 && n <= 255 { "nodeid_two_byte" } else if v.namespace <= 255 && n <= 65535 { "nodeid_four_byte" } else { "nodeid_full_numeric" });
            }
            roundtrip(ctx, name, &v, &id)
        }
        19 => {
            let v = f.expanded_node_id(true);
            ctx.nontrivial();
            ctx.class(&format!("expanded_uri{}_svr{}", !v.namespace_uri.is_null() as u8, (v.server_index != 0) as u8));
            roundtrip(ctx, name, &v, &id)
        }
        20 => {
            ctx.nontrivial();
            roundtrip(ctx, name, &f.extension_object(), &id)
        }
        21 => {
            let v = f.diagnostic_info(6);
            if v.inner_diagnostic_info.is_some() {
                ctx.nontrivial();
                ctx.class("diagnostic_nested");
            }
            roundtrip(ctx, name, &v, &id)
        }
        22 => {
            let v = f.data_value_raw(4);
            ctx.nontrivial();
            let mask = (v.value.is_some() as u8) | (v.status.is_some() as u8) << 1 | (v.source_timestamp.is_some() as u8) << 2 | (v.source_picoseconds.is_some() as u8) << 3
                | (v.server_timestamp.is_some() as u8) << 4 | (v.server_picoseconds.is_some() as u8) << 5;
            ctx.class(&format!("datavalue_mask_{:02}", mask));
            if let Some(x) = &v.value {
                classify_variant(ctx, x, 0);
            }
            // documented in data_value.rs: picoseconds are ignored when the timestamp is missing
            let norm = |d: &DataValue| {
                let mut d = d.clone();
                if d.source_timestamp.is_none() {
                    d.source_picoseconds = None;
                }
                if d.server_timestamp.is_none() {
                    d.server_picoseconds = None;
                }
                d
            };
            roundtrip(ctx, name, &v, &norm)
        }
        23 => {
            let v = f.variant(8);
            classify_variant(ctx, &v, 0);
            roundtrip(ctx, name, &v, &id)
        }
        24 => {
            let v = f.array(6);
            classify_variant(ctx, &v, 0);
            roundtrip(ctx, name, &v, &id)
        }
        25 => {
            ctx.nontrivial();
            let n = f.below(5);
            let v: Option<Vec<Variant>> = if n == 0 { None } else { Some((1..n).map(|_| f.variant(3)).collect()) };
            let enc = ArrayWrap(v);
            roundtrip(ctx, name, &enc, &id)
        }
        _ => {
            ctx.nontrivial();
            let n = f.below(5);
            let v: Option<Vec<UAString>> = if n == 0 { None } else { Some((1..n).map(|_| f.ua_string()).collect()) };
            roundtrip(ctx, name, &ArrayWrap(v), &id)
        }
    }
}

/// `Option<Vec<T>>` through the crate's array helpers (null vs empty array must stay distinct)
#[derive(Debug, Clone, PartialEq)]
struct ArrayWrap<T>(Option<Vec<T>>);
impl<T: BinaryEncoder<T> + Clone> BinaryEncoder<ArrayWrap<T>> for ArrayWrap<T> {
    fn byte_len(&self) -> usize {
        byte_len_array(&self.0)
    }
    fn encode<S: std::io::Write>(&self, stream: &mut S) -> EncodingResult<usize> {
        write_array(stream, &self.0)
    }
    fn decode<S: std::io::Read>(stream: &mut S, o: &DecodingOptions) -> EncodingResult<Self> {
        read_array(stream, o).map(ArrayWrap)
    }
}

struct Vis<'a> {
    ctx: &'a Ctx,
    result: PResult,
}
impl<'a> TypeVisitor for Vis<'a> {
    fn visit<T: BinaryEncoder<T> + Debug + PartialEq + Clone>(&mut self, name: &'static str, value: T) {
        self.ctx.class_n("service_type_values", 1);
        let d = format!("{:?}", value);
        if d.contains("Some([") || d.contains("Array {") || d.contains("ExtensionObject {") {
            self.ctx.nontrivial();
        }
        self.result = roundtrip(self.ctx, name, &value, &id);
    }
}

fn service_type(ctx: &Ctx, c: &Case) -> PResult {
    let mut f = Filler::new(&c.data);
    let i = c.kind as usize % SERVICE_TYPE_NAMES.len();
    let mut vis = Vis { ctx, result: Ok(()) };
    with_service_type(i, &mut f, &mut vis);
    vis.result
}

fn enum_type(ctx: &Ctx, c: &Case) -> PResult {
    let mut f = Filler::new(&c.data);
    let i = c.kind as usize % ENUM_TYPE_NAMES.len();
    let mut vis = Vis { ctx, result: Ok(()) };
    with_enum_type(i, &mut f, &mut vis);
    vis.result
}

/// A message the way the chunker frames it: type node id followed by the body, decoded through
/// `decode_by_object_id`.
#[derive(Debug, Clone, PartialEq)]
struct Framed(SupportedMessage);
impl BinaryEncoder<Framed> for Framed {
    fn byte_len(&self) -> usize {
        self.0.node_id().byte_len() + self.0.byte_len()
    }
    fn encode<S: std::io::Write>(&self, stream: &mut S) -> EncodingResult<usize> {
        let mut n = self.0.node_id().encode(stream)?;
        n += self.0.encode(stream)?;
        Ok(n)
    }
    fn decode<S: std::io::Read>(stream: &mut S, o: &DecodingOptions) -> EncodingResult<Self> {
        let node_id = NodeId::decode(stream, o)?;
        let object_id = node_id.as_object_id().map_err(|_| StatusCode::BadUnexpectedError)?;
        match SupportedMessage::decode_by_object_id(stream, object_id, o)? {
            SupportedMessage::Invalid(_) => Err(StatusCode::BadServiceUnsupported),
            m => Ok(Framed(m)),
        }
    }
}

fn message(ctx: &Ctx, c: &Case) -> PResult {
    let mut f = Filler::new(&c.data);
    let i = c.kind as usize % MESSAGE_NAMES.len();
    let m = fill_supported_message(i, &mut f);
    ctx.class("message");
    ctx.nontrivial();
    roundtrip(ctx, MESSAGE_NAMES[i], &Framed(m), &id)
}

fn case_strategy(kinds: usize, max_len: usize) -> impl Strategy<Value = Case> {
    (0..kinds as u16, proptest::collection::vec(any::<u8>(), 0..max_len)).prop_map(|(kind, data)| Case { kind, data })
}

pub fn def() -> PropDef {
    PropDef {
        id: "C01",
        rule: "values built by a byte-driven structured generator for every built-in type, every generated service structure / enum (all types parsed from lib/src/types/service_types) and every SupportedMessage variant; oracle = byte_len==bytes written, decoder consumes exactly those bytes (sentinels on both sides), decoded==original up to the listed normalisations, and a second encode/decode generation; non-trivial = value contains a container (array, nested variant, data value, extension object, optional array) or exercises a listed normalisation; distinct = distinct (type, generator bytes); thorough adds a libFuzzer campaign (target c01_roundtrip: whatever decodes is a value; its encoding must decode completely and decode.encode must be idempotent on it)",
        assumptions: &[
            "equality falls back to the derived Debug rendering for NaN payloads and for the dimensions of empty arrays",
            "LocalizedText null/empty parts and out-of-range DateTime are generated at top level only (nested values are generated in normal form)",
            "DataValue picoseconds without a timestamp are dropped (documented in data_value.rs)",
        ],
        abort_possible: false,
        parts: |tier| {
            vec![
                part("builtin", tier.pick(60_000, 7_500_000), case_strategy(BUILTIN_KINDS.len(), 160), builtin),
                part("service_types", tier.pick(45_000, 6_000_000), case_strategy(SERVICE_TYPE_NAMES.len(), 400), service_type),
                part("enums", tier.pick(2_000, 200_000), case_strategy(ENUM_TYPE_NAMES.len(), 8), enum_type),
                part("messages", tier.pick(12_000, 2_000_000), case_strategy(MESSAGE_NAMES.len(), 500), message),
            ]
            .into_iter()
            // decode-as-generator: whatever decodes is a value (including non-canonical forms no constructive generator builds)
            .chain(if tier == Tier::Thorough { Some(part_fuzz("libfuzzer_c01_roundtrip", "c01_roundtrip", 4_000_000, 1024)) } else { None })
            .collect()
        },
    }
}

//! C02 — Decoding arbitrary bytes never panics, overflows the stack or over-allocates.
use crate::alloc_track;
use crate::engine::*;
use crate::filler::Filler;
use crate::service_fillers::*;
use bytes::BytesMut;
use opcua::core::comms::message_chunk::{MessageChunk, MessageChunkHeader};
use opcua::core::comms::secure_channel::Role;
use opcua::core::comms::tcp_codec::TcpCodec;
use opcua::core::comms::tcp_types::{AcknowledgeMessage, ErrorMessage, HelloMessage, MessageHeader};
use opcua::core::supported_message::SupportedMessage;
use opcua::types::*;
use proptest::prelude::*;
use serde::{Deserialize, Serialize};
use std::io::Cursor;
use tokio_util::codec::Decoder;

#[derive(Clone, Debug, Serialize, Deserialize)]
pub enum Input {
    Raw(Vec<u8>),
    /// a valid encoding (built-in kind or service type, generator bytes) with mutations (op, position, value)
    Mutated { service: bool, kind: u16, data: Vec<u8>, muts: Vec<(u8, u16, u8)> },
    /// framing-shaped: message type, F/C/A, declared size, then bytes; run through all framing decoders
    Framed { ty: u8, fin: u8, size: u32, rest: Vec<u8> },
    /// prefix^k followed by a terminator, for the recursive shapes
    Nest { shape: u8, k: u32 },
    /// a Variant array of n one-byte elements that carries an array-dimensions list (products that overflow 32 bits,
    /// zero and negative dimensions, products that differ from n)
    Matrix { n: u16, dims: Vec<u32>, declared_len: Option<i32> },
}

#[derive(Clone, Debug, Serialize, Deserialize)]
pub struct Case {
    pub input: Input,
    /// which decoder; for Mutated inputs of a service type the matching decoder is also always run
    pub target: u16,
    pub minimal: bool,
}

const N_BUILTIN: usize = 24;
const N_FRAMING: usize = 8;

fn n_targets() -> usize {
    N_BUILTIN + N_FRAMING + MESSAGE_NAMES.len() + SERVICE_TYPE_NAMES.len()
}

const LENGTHS: &[i32] = &[-2, -1, 0, 1, 999, 1000, 1001, 8191, 8192, 8193, 65534, 65535, 65536, 0x00ff_ffff, i32::MAX, i32::MIN];

fn build_input(input: &Input) -> Vec<u8> {
    match input {
        Input::Raw(b) => b.clone(),
        Input::Framed { ty, fin, size, rest } => {
            let mut v = ["HEL", "ACK", "ERR", "MSG", "OPN", "CLO", "XXX"][*ty as usize % 7].as_bytes().to_vec();
            v.push([b'F', b'C', b'A', b'Z'][*fin as usize % 4]);
            v.extend_from_slice(&size.to_le_bytes());
            v.extend(rest);
            v
        }
        Input::Mutated { service, kind, data, muts } => {
            let mut f = Filler::new(data);
            let mut bytes: Vec<u8> = if *service {
                struct Enc(Vec<u8>);
                impl TypeVisitor for Enc {
                    fn visit<T: BinaryEncoder<T> + std::fmt::Debug + PartialEq + Clone>(&mut self, _n: &'static str, v: T) {
                        self.0 = v.encode_to_vec();
                    }
                }
                let mut e = Enc(Vec::new());
                with_service_type(*kind as usize % SERVICE_TYPE_NAMES.len(), &mut f, &mut e);
                e.0
            } else {
                match kind % 6 {
                    0 => f.variant(6).encode_to_vec(),
                    1 => f.data_value(5).encode_to_vec(),
                    2 => f.diagnostic_info(6).encode_to_vec(),
                    3 => f.extension_object().encode_to_vec(),
                    4 => f.array(4).encode_to_vec(),
                    _ => f.expanded_node_id(true).encode_to_vec(),
                }
            };
            for (op, pos, val) in muts {
                let len = bytes.len();
                let p = if len == 0 { 0 } else { (*pos as usize * len) >> 16 };
                match op % 5 {
                    0 => {
                        if p < len {
                            bytes[p] ^= 1 << (val % 8);
                        }
                    }
                    1 => bytes.truncate(p),
                    2 => bytes.extend(std::iter::repeat(*val).take(1 + (*val as usize % 16))),
                    3 => {
                        // overwrite a plausible length field: the k-th position holding a small i32 or -1
                        let cands: Vec<usize> = (0..len.saturating_sub(3))
                            .filter(|i| {
                                let v = i32::from_le_bytes([bytes[*i], bytes[i + 1], bytes[i + 2], bytes[i + 3]]);
                                v == -1 || (v >= 0 && (v as usize) <= len)
                            })
                            .collect();
                        if !cands.is_empty() {
                            let i = cands[(*pos as usize * cands.len()) >> 16];
                            let v = LENGTHS[*val as usize % LENGTHS.len()];
                            bytes[i..i + 4].copy_from_slice(&v.to_le_bytes());
                        }
                    }
                    _ => {
                        if p < len {
                            bytes[p] = *val;
                        }
                    }
                }
            }
            bytes
        }
        Input::Matrix { n, dims, declared_len } => {
            let n = *n as usize % 40;
            // Byte (type id 3) | array bit | dimensions bit
            let mut v = vec![0x03u8 | 0x80 | 0x40];
            v.extend_from_slice(&declared_len.unwrap_or(n as i32).to_le_bytes());
            v.extend(std::iter::repeat(7u8).take(n));
            v.extend_from_slice(&(dims.len() as i32).to_le_bytes());
            for d in dims {
                v.extend_from_slice(&d.to_le_bytes());
            }
            v
        }
        Input::Nest { shape, k } => {
            let (prefix, tail): (&[u8], &[u8]) = match shape % 6 {
                0 => (&[0x17, 0x01], &[0x00]),                   // Variant(DataValue(value: Variant(...)))
                1 => (&[0x18], &[0x00]),                         // Variant(Variant(...))
                2 => (&[0x40], &[0x00]),                         // DiagnosticInfo inner info
                3 => (&[0x98, 0x01, 0x00, 0x00, 0x00], &[0x00]), // array of 1 Variant holding an array ...
                4 => (&[0x01, 0x17], &[0x00]),                   // DataValue(value: Variant(DataValue ...))
                _ => (&[0x19, 0x40], &[0x00]),                   // Variant(DiagnosticInfo(inner...)) — only first level mixes
            };
            let mut v = Vec::with_capacity(prefix.len() * *k as usize + 1);
            for _ in 0..*k {
                v.extend_from_slice(prefix);
            }
            v.extend_from_slice(tail);
            v
        }
    }
}

fn nest_target(shape: u8) -> usize {
    match shape % 6 {
        0 | 1 | 3 | 5 => 23, // Variant
        2 => 21,             // DiagnosticInfo
        _ => 22,             // DataValue
    }
}

/// Runs decoder `t` on `bytes`; returns (ok, bytes consumed if known)
fn run_target(t: usize, bytes: &[u8], o: &DecodingOptions) -> (bool, usize) {
    let mut c = Cursor::new(bytes);
    macro_rules! dec {
        ($ty:ty) => {{
            let r = <$ty as BinaryEncoder<$ty>>::decode(&mut c, o).is_ok();
            (r, c.position() as usize)
        }};
    }
    if t < N_BUILTIN {
        return match t {
            0 => dec!(bool),
            1 => dec!(i8),
            2 => dec!(u8),
            3 => dec!(i16),
            4 => dec!(u16),
            5 => dec!(i32),
            6 => dec!(u32),
            7 => dec!(i64),
            8 => dec!(u64),
            9 => dec!(f32),
            10 => dec!(f64),
            11 => dec!(UAString),
            12 => dec!(DateTime),
            13 => dec!(Guid),
            14 => dec!(StatusCode),
            15 => dec!(ByteString),
            16 => dec!(QualifiedName),
            17 => dec!(LocalizedText),
            18 => dec!(NodeId),
            19 => dec!(ExpandedNodeId),
            20 => dec!(ExtensionObject),
            21 => dec!(DiagnosticInfo),
            22 => dec!(DataValue),
            _ => dec!(Variant),
        };
    }
    let t = t - N_BUILTIN;
    if t < N_FRAMING {
        return match t {
            0 => dec!(MessageHeader),
            1 => dec!(HelloMessage),
            2 => dec!(AcknowledgeMessage),
            3 => dec!(ErrorMessage),
            4 => {
                // keep the harness fast: a declared size beyond 64 MiB is presented as 64 MiB (any
                // request above 16 MiB already violates the allocation bound)
                let mut b = bytes.to_vec();
                if b.len() >= 8 && u32::from_le_bytes([b[4], b[5], b[6], b[7]]) > (64 << 20) {
                    b[4..8].copy_from_slice(&(64u32 << 20).to_le_bytes());
                }
                let mut c = Cursor::new(b.as_slice());
                let r = MessageHeader::read_bytes(&mut c, o).is_ok();
                (r, c.position() as usize)
            }
            5 => dec!(MessageChunkHeader),
            6 => {
                let r = MessageChunk::decode(&mut c, o);
                let ok = r.is_ok();
                if let Ok(chunk) = r {
                    let _ = chunk.message_header(o);
                    let ch = crate::fixtures::plain_channel(Role::Server);
                    let _ = chunk.chunk_info(&ch);
                }
                (ok, c.position() as usize)
            }
            _ => {
                let mut codec = TcpCodec::new(o.clone());
                let mut buf = BytesMut::from(bytes);
                let mut any = false;
                for _ in 0..4 {
                    match codec.decode(&mut buf) {
                        Ok(Some(_)) => any = true,
                        _ => break,
                    }
                }
                (any, bytes.len() - buf.len())
            }
        };
    }
    let t = t - N_FRAMING;
    if t < MESSAGE_NAMES.len() {
        let mut f = Filler::new(&[]);
        let oid = fill_supported_message(t, &mut f).node_id().as_object_id();
        return match oid {
            Ok(oid) => {
                let r = SupportedMessage::decode_by_object_id(&mut c, oid, o).is_ok();
                (r, c.position() as usize)
            }
            Err(_) => (false, 0),
        };
    }
    let t = t - MESSAGE_NAMES.len();
    match decode_service_type(t, bytes, o) {
        Ok(n) => (true, n),
        Err(_) => (false, 0),
    }
}

fn check(ctx: &Ctx, c: &Case) -> PResult {
    let bytes = build_input(&c.input);
    let mut targets: Vec<usize> = vec![c.target as usize % n_targets()];
    match &c.input {
        Input::Nest { shape, .. } => {
            targets = vec![nest_target(*shape)];
            ctx.class(&format!("nest_shape_{}", shape % 6));
        }
        Input::Mutated { service, kind, .. } => {
            ctx.class("mutated_valid_encoding");
            if *service {
                targets.push(N_BUILTIN + N_FRAMING + MESSAGE_NAMES.len() + (*kind as usize % SERVICE_TYPE_NAMES.len()));
            } else {
                targets.push([23usize, 22, 21, 20, 23, 19][*kind as usize % 6]);
            }
        }
        Input::Raw(_) => ctx.class("raw"),
        Input::Matrix { dims, .. } => {
            targets = vec![23, 22];
            ctx.class("matrix_dimensions");
            if dims.iter().fold(1u128, |a, d| a * *d as u128) > u32::MAX as u128 {
                ctx.class("matrix_dimension_product_exceeds_u32");
            }
        }
        Input::Framed { .. } => {
            ctx.class("framing_shaped");
            targets = (N_BUILTIN..N_BUILTIN + N_FRAMING).collect();
        }
    }
    let len = bytes.len();
    for t in targets {
        let minimal = c.minimal;
        let b = bytes.clone();
        // the decode runs on a 2 MiB stack, the stack a tokio worker really decodes on
        let r = guarded_small_stack(move || {
            let o = if minimal { DecodingOptions::minimal() } else { DecodingOptions::default() };
            alloc_track::reset();
            let (ok, consumed) = run_target(t, &b, &o);
            let (peak, max_req) = alloc_track::read();
            (ok, consumed, peak, max_req)
        });
        let (ok, consumed, peak, max_req) = r?;
        if ok || consumed >= 8 {
            ctx.nontrivial();
        }
        ctx.class(if ok { "decoded_ok" } else { "decoded_err" });
        let tname = target_name(t);
        if max_req > 16 << 20 {
            return ctx.fail(format!("alloc/single-request/{}", tname), format!("decoder {} requested a single allocation of {} bytes for an input of {} bytes", tname, max_req, len));
        }
        if peak > (8 << 20) + 64 * len {
            return ctx.fail(format!("alloc/peak/{}", tname), format!("decoder {} held {} bytes at peak for an input of {} bytes", tname, peak, len));
        }
        if let Input::Nest { shape, k } = &c.input {
            let max_depth = if c.minimal { 1 } else { 10 };
            if (*k as usize) >= 4 * max_depth + 4 && ok {
                return ctx.fail(format!("depth-limit-not-enforced/shape-{}", shape % 6), format!("{} nested levels (shape {}) were accepted by {} with max decoding depth {}", k, shape % 6, tname, max_depth));
            }
        }
    }
    Ok(())
}

fn target_name(t: usize) -> String {
    const B: [&str; 24] = ["bool", "i8", "u8", "i16", "u16", "i32", "u32", "i64", "u64", "f32", "f64", "UAString", "DateTime", "Guid", "StatusCode", "ByteString", "QualifiedName", "LocalizedText", "NodeId", "ExpandedNodeId", "ExtensionObject", "DiagnosticInfo", "DataValue", "Variant"];
    const F: [&str; 8] = ["MessageHeader", "HelloMessage", "AcknowledgeMessage", "ErrorMessage", "MessageHeader::read_bytes", "MessageChunkHeader", "MessageChunk", "TcpCodec"];
    if t < N_BUILTIN {
        B[t].to_string()
    } else if t < N_BUILTIN + N_FRAMING {
        F[t - N_BUILTIN].to_string()
    } else if t < N_BUILTIN + N_FRAMING + MESSAGE_NAMES.len() {
        format!("message:{}", MESSAGE_NAMES[t - N_BUILTIN - N_FRAMING])
    } else {
        SERVICE_TYPE_NAMES[t - N_BUILTIN - N_FRAMING - MESSAGE_NAMES.len()].to_string()
    }
}

fn raw_strategy() -> impl Strategy<Value = Input> {
    prop_oneof![
        proptest::collection::vec(any::<u8>(), 0..200).prop_map(Input::Raw),
        (0u8..7, 0u8..4, prop_oneof![0u32..300, Just(8u32), Just(u32::MAX), Just(0x0100_0000u32), Just(0x0fff_ffffu32), Just(327675u32), Just(327676u32), Just(17 << 20)], proptest::collection::vec(any::<u8>(), 0..120))
            .prop_map(|(ty, fin, size, rest)| Input::Framed { ty, fin, size, rest }),
    ]
}

fn case_strategy(max_k: u32) -> impl Strategy<Value = Case> {
    let input = prop_oneof![
        3 => raw_strategy(),
        5 => (any::<bool>(), any::<u16>(), proptest::collection::vec(any::<u8>(), 0..200), proptest::collection::vec((any::<u8>(), any::<u16>(), any::<u8>()), 0..4))
            .prop_map(|(service, kind, data, muts)| Input::Mutated { service, kind, data, muts }),
        1 => (0u8..6, prop_oneof![0u32..60, 40u32..2000, (max_k / 2)..max_k]).prop_map(|(shape, k)| Input::Nest { shape, k }),
        1 => (0u16..40, proptest::collection::vec(prop_oneof![4 => prop::sample::select(vec![0u32, 1, 2, 3, 4, 5, 8, 16, 0xffff, 0x1_0000, 0x1_0001, 0x4000_0000, 0x7fff_ffff, 0x8000_0000, 0x8000_0001, 0xffff_fffe, 0xffff_ffff]), 1 => any::<u32>()], 0..5), proptest::option::weighted(0.2, prop::sample::select(LENGTHS.to_vec())))
            .prop_map(|(n, dims, declared_len)| Input::Matrix { n, dims, declared_len }),
    ];
    (input, any::<u16>(), proptest::bool::weighted(0.2)).prop_map(|(input, target, minimal)| Case { input, target, minimal })
}

pub fn def() -> PropDef {
    PropDef {
        id: "C02",
        rule: "byte strings from three sources (raw and framing-shaped random bytes; valid encodings of generated values with bit flips / truncation / extension / rewritten length fields; nesting grammars prefix^k for Variant<->DataValue, Variant(Variant), DiagnosticInfo, arrays of variants; variant arrays with dimension lists whose product overflows 32 bits) decoded as every built-in type, header/chunk/codec types, all SupportedMessage ids and every generated service type under default and minimal decoding options, on a 2 MiB stack with a counting allocator; non-trivial = decoder returned Ok or consumed >= 8 bytes; distinct = distinct (input, target, options); thorough adds a libFuzzer campaign (target c02_decode: type selector, options preset, bytes; no panic, no single allocation above 16 MiB)",
        assumptions: &[
            "allocation bound: peak growth during one decode <= 8 MiB + 64 x input length and no single request > 16 MiB",
            "a nesting of k >= 4 x max depth + 4 levels must be rejected (factor 4 is slack for how levels are counted)",
            "stack exhaustion kills the worker process and is reported by the supervising parent from the write-ahead case",
        ],
        abort_possible: true,
        parts: |tier| {
            let mut v = vec![part("decode", tier.pick(40_000, 1_000_000), case_strategy(if tier == Tier::Quick { 30_000 } else { 300_000 }), check)];
            if tier == Tier::Thorough {
                // coverage-guided: selector byte (type), options preset, then the bytes to decode; no panic, no single allocation > 16 MiB
                v.push(part_fuzz("libfuzzer_c02_decode", "c02_decode", 4_000_000, 1024));
            }
            v
        },
    }
}

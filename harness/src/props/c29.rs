//! C29 — Deleting a node terminates and leaves no dangling references.
use crate::engine::*;
use opcua::server::prelude::*;
use proptest::prelude::*;
use serde::{Deserialize, Serialize};
use std::cell::{Cell, RefCell};
use std::collections::{BTreeSet, VecDeque};

#[derive(Clone, Debug, Serialize, Deserialize, PartialEq)]
pub struct Case {
    pub nodes: u8,
    /// (source, target, reference type index); source == target is skipped (documented panic of insert_reference)
    pub edges: Vec<(u8, u8, u8)>,
    pub delete: u8,
    pub delete_target_references: bool,
    /// also hang the first node under the Objects folder
    pub anchored: bool,
    /// references (indexes into the set of references, taken modulo its size) that are removed again with delete_reference
    /// before the node is deleted - e.g. one of two parallel references of different types between the same nodes
    #[serde(default)]
    pub removed_first: Vec<u8>,
}

/// HasComponent, HasProperty, HasOrderedComponent (aggregating: subtypes of Aggregates), Organizes, GeneratesEvent
const TYPES: [ReferenceTypeId; 5] = [ReferenceTypeId::HasComponent, ReferenceTypeId::HasProperty, ReferenceTypeId::HasOrderedComponent, ReferenceTypeId::Organizes, ReferenceTypeId::GeneratesEvent];

fn aggregating(t: usize) -> bool {
    t < 3
}

fn case() -> impl Strategy<Value = Case> {
    (3u8..11, any::<u8>(), proptest::bool::weighted(0.85), any::<bool>()).prop_flat_map(|(nodes, delete, dtr, anchored)| {
        let edge = (0..nodes, 0..nodes, prop_oneof![3 => Just(0u8), 2 => Just(1u8), 1 => Just(2u8), 2 => Just(3u8), 1 => Just(4u8)]);
        // motifs: a cycle a->b->a, a shared child, a chain
        let motif = (0..nodes, 0..nodes, 0..nodes, 0u8..5).prop_map(|(a, b, c, k)| match k {
            0 => vec![(a, b, 0u8), (b, a, 0u8)],
            1 => vec![(a, c, 0u8), (b, c, 1u8)],
            2 => vec![(a, b, 0u8), (b, c, 2u8), (c, a, 1u8)],
            // parallel references of different types between the same two nodes
            3 => vec![(a, b, 0u8), (a, b, 1u8)],
            _ => vec![(a, b, 3u8), (a, b, 0u8), (a, b, 4u8)],
        });
        (prop::collection::vec(edge, 0..14), prop::collection::vec(motif, 0..3), prop::collection::vec(any::<u8>(), 0..3)).prop_map(move |(mut edges, motifs, removed_first)| {
            for m in motifs {
                edges.extend(m);
            }
            Case { nodes, edges, delete: delete % nodes, delete_target_references: dtr, anchored, removed_first }
        })
    })
}

thread_local! {
    static SPACE: RefCell<Option<AddressSpace>> = const { RefCell::new(None) };
    static CASE_NO: Cell<u64> = const { Cell::new(0) };
}

fn with_space<T>(f: impl FnOnce(&mut AddressSpace) -> T) -> T {
    SPACE.with(|s| {
        let mut s = s.borrow_mut();
        if s.is_none() {
            *s = Some(AddressSpace::new());
        }
        f(s.as_mut().unwrap())
    })
}

fn run(ctx: &Ctx, c: &Case) -> PResult {
    let case_no = CASE_NO.with(|n| {
        n.set(n.get() + 1);
        n.get()
    });
    let n = c.nodes as usize;
    let id = |i: usize| NodeId::new(1, format!("c29-{}-{}-{}", std::process::id(), case_no, i));
    // ground truth
    let mut truth: BTreeSet<(usize, usize, usize)> = BTreeSet::new();
    for (a, b, t) in &c.edges {
        let (a, b, t) = (*a as usize % n, *b as usize % n, *t as usize % TYPES.len());
        if a != b {
            truth.insert((a, b, t));
        }
    }
    with_space(|sp| {
        for i in 0..n {
            ObjectBuilder::new(&id(i), format!("n{}", i).as_str(), "n").insert(sp);
        }
        for (a, b, t) in &truth {
            sp.insert_reference(&id(*a), &id(*b), TYPES[*t]);
        }
        if c.anchored {
            sp.insert_reference(&ObjectId::ObjectsFolder.into(), &id(0), ReferenceTypeId::Organizes);
        }
    });
    // some references are removed again before the delete
    for r in &c.removed_first {
        if truth.is_empty() {
            break;
        }
        let (a, b, t) = *truth.iter().nth(*r as usize % truth.len()).unwrap();
        let parallel = truth.iter().any(|(a2, b2, t2)| *a2 == a && *b2 == b && *t2 != t);
        let gone = with_space(|sp| sp.delete_reference(&id(a), &id(b), TYPES[t]));
        if !gone {
            return ctx.fail("delete-reference/returned-false", format!("deleting the existing reference {} -{:?}-> {} returned false", a, TYPES[t], b));
        }
        truth.remove(&(a, b, t));
        ctx.class(if parallel { "one_of_parallel_references_removed_first" } else { "reference_removed_first" });
    }
    // closure of the deleted node under aggregating references
    let k = c.delete as usize % n;
    let mut closure: BTreeSet<usize> = BTreeSet::new();
    let mut queue = VecDeque::from([k]);
    while let Some(x) = queue.pop_front() {
        if closure.insert(x) {
            for (a, b, t) in &truth {
                if *a == x && aggregating(*t) {
                    queue.push_back(*b);
                }
            }
        }
    }
    let has_cycle = truth.iter().any(|(a, b, t)| aggregating(*t) && closure.contains(a) && *b == k);
    if closure.len() >= 2 || has_cycle {
        ctx.nontrivial();
    }
    if has_cycle {
        ctx.class("aggregation_cycle_through_deleted_node");
    }
    ctx.class(if c.delete_target_references { "delete_target_references" } else { "keep_target_references" });

    let dtr = c.delete_target_references;
    let r = ctx.guard(|| with_space(|sp| sp.delete(&id(k), dtr)))?;
    if !r {
        return ctx.fail("delete/returned-false", format!("deleting existing node {} returned false", k));
    }
    // clean up whatever the case leaves behind, whatever the verdict
    let verdict = with_space(|sp| -> PResult {
        if !dtr {
            return Ok(());
        }
        for i in 0..n {
            let exists = sp.node_exists(&id(i));
            if closure.contains(&i) && exists {
                return ctx.fail("delete/aggregated-node-survives", format!("node {} is aggregated (transitively) by deleted node {} but still exists; references {:?}", i, k, truth));
            }
            if !closure.contains(&i) && !exists {
                return ctx.fail("delete/unrelated-node-removed", format!("node {} is not aggregated by deleted node {} but was removed; references {:?}", i, k, truth));
            }
        }
        // no reference may have an end in the closure; references between survivors stay
        for i in 0..n {
            let fwd = sp.find_references(&id(i), None::<(NodeId, bool)>).unwrap_or_default();
            let inv = sp.find_inverse_references(&id(i), None::<(NodeId, bool)>).unwrap_or_default();
            if closure.contains(&i) && (!fwd.is_empty() || !inv.is_empty()) {
                return ctx.fail("delete/dangling-reference", format!("removed node {} still has {} forward and {} inverse references; deleted {}; references {:?}", i, fwd.len(), inv.len(), k, truth));
            }
            for r in fwd.iter().chain(inv.iter()) {
                for j in closure.iter() {
                    if r.target_node == id(*j) {
                        return ctx.fail("delete/dangling-reference", format!("surviving node {} still refers to removed node {}; deleted {}; references {:?}", i, j, k, truth));
                    }
                }
            }
        }
        for (a, b, t) in &truth {
            if !closure.contains(a) && !closure.contains(b) {
                if !sp.has_reference(&id(*a), &id(*b), TYPES[*t]) {
                    return ctx.fail("delete/unrelated-reference-removed", format!("reference {} -{:?}-> {} between surviving nodes disappeared when node {} was deleted; references {:?}", a, TYPES[*t], b, k, truth));
                }
                let inv = sp.find_inverse_references(&id(*b), None::<(NodeId, bool)>).unwrap_or_default();
                if !inv.iter().any(|r| r.target_node == id(*a)) {
                    return ctx.fail("delete/unrelated-inverse-reference-removed", format!("inverse of {} -> {} disappeared when node {} was deleted; references {:?}", a, b, k, truth));
                }
            }
        }
        if c.anchored && !closure.contains(&0) && !sp.has_reference(&ObjectId::ObjectsFolder.into(), &id(0), ReferenceTypeId::Organizes) {
            return ctx.fail("delete/unrelated-reference-removed", "the Organizes reference from the Objects folder disappeared".to_string());
        }
        Ok(())
    });
    with_space(|sp| {
        for i in 0..n {
            sp.delete(&id(i), true);
        }
    });
    verdict
}

pub fn def() -> PropDef {
    PropDef {
        id: "C29",
        rule: "reference multigraphs over 3..10 fresh Object nodes in a standard address space (HasComponent, HasProperty, HasOrderedComponent, Organizes, GeneratesEvent; random edges plus explicit two-node cycle, shared child, three-node mixed cycle and parallel-reference motifs; up to two references removed again with delete_reference before the delete), one node deleted with and without delete_target_references; oracle: the call returns (a stack overflow kills the worker and is reported from the write-ahead case); exactly the nodes of the forward closure under aggregating references are gone; no forward or inverse reference has an end in the closure; every reference between surviving nodes (and the anchor from the Objects folder) is still there in both directions; non-trivial = closure of at least two nodes or an aggregation cycle through the deleted node; distinct = distinct case",
        assumptions: &["self references are not generated: insert_reference documents a panic for them (the service-level reachability belongs to C33)", "without delete_target_references only termination is asserted"],
        abort_possible: true,
        parts: |tier| vec![part("delete_node", tier.pick(2000, 400_000), case(), run)],
    }
}

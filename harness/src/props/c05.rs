//! C05 — Relative path strings round-trip and parse safely.
use crate::engine::*;
use crate::filler::Filler;
use opcua::types::*;
use proptest::prelude::*;
use serde::{Deserialize, Serialize};

#[derive(Clone, Debug, Serialize, Deserialize)]
pub struct Case {
    pub data: Vec<u8>,
}

const STD_TYPES: &[ReferenceTypeId] = &[
    ReferenceTypeId::HierarchicalReferences, ReferenceTypeId::Aggregates, ReferenceTypeId::References, ReferenceTypeId::NonHierarchicalReferences,
    ReferenceTypeId::HasChild, ReferenceTypeId::Organizes, ReferenceTypeId::HasEventSource, ReferenceTypeId::HasModellingRule, ReferenceTypeId::HasEncoding,
    ReferenceTypeId::HasDescription, ReferenceTypeId::HasTypeDefinition, ReferenceTypeId::GeneratesEvent, ReferenceTypeId::HasSubtype, ReferenceTypeId::HasProperty,
    ReferenceTypeId::HasComponent, ReferenceTypeId::HasNotifier, ReferenceTypeId::HasOrderedComponent, ReferenceTypeId::FromState, ReferenceTypeId::ToState,
    ReferenceTypeId::HasCause, ReferenceTypeId::HasEffect, ReferenceTypeId::HasHistoricalConfiguration, ReferenceTypeId::HasSubStateMachine,
    ReferenceTypeId::AlwaysGeneratesEvent, ReferenceTypeId::HasTrueSubState, ReferenceTypeId::HasFalseSubState, ReferenceTypeId::HasCondition,
];

const NAME_ALPHABET: &[&str] = &["a", "B", "7", "&", "/", ".", "<", ">", ":", "#", "!", " ", "é", "€", "𝄞", "_", "\n", "1", "0"];
const RESERVED: &[char] = &['&', '/', '.', '<', '>', ':', '#', '!'];

fn name(f: &mut Filler, max: usize) -> String {
    let n = 1 + f.below(max);
    let mut s = String::new();
    for _ in 0..n {
        s.push_str(NAME_ALPHABET[f.below(NAME_ALPHABET.len())]);
    }
    s
}

fn escaped_len(s: &str) -> usize {
    s.len() + s.chars().filter(|c| RESERVED.contains(c)).count()
}

struct Info {
    ns_ge_10: bool,
    reserved: bool,
    gt_in_name: bool,
    newline: bool,
    named_ref: bool,
}

fn element(f: &mut Filler, info: &mut Info) -> RelativePathElement {
    let (reference_type_id, named): (NodeId, bool) = match f.below(4) {
        0 | 1 => (STD_TYPES[f.below(STD_TYPES.len())].into(), false),
        _ => {
            let ns = f.choose(&[1u16, 0, 9, 10, 255, 65535]);
            let mut n = name(f, 6);
            // a namespace-0 string id spelled like a standard type name would (by construction of the
            // format) read back as the standard numeric id: excluded
            if ns == 0 && RelativePathElement::default_node_resolver(0, &n).map(|x| x.is_numeric()).unwrap_or(false) {
                n.push('x');
            }
            (NodeId::new(ns, UAString::from(n)), true)
        }
    };
    let is_inverse = f.bool();
    let include_subtypes = f.bool();
    let tns = f.choose(&[0u16, 1, 9, 10, 99, 65535]);
    let target_name = if f.chance(20) { QualifiedName::new(if tns >= 10 { tns } else { 0 }, UAString::null()) } else { QualifiedName::new(tns, UAString::from(name(f, 8))) };
    if target_name.namespace_index >= 10 || (named && reference_type_id.namespace >= 10) {
        info.ns_ge_10 = true;
    }
    let tn = target_name.name.as_ref().to_string();
    let rn = if let Identifier::String(s) = &reference_type_id.identifier { s.as_ref().to_string() } else { String::new() };
    if tn.contains(RESERVED) || rn.contains(RESERVED) {
        info.reserved = true;
    }
    if tn.contains('>') || rn.contains('>') {
        info.gt_in_name = true;
    }
    if tn.contains('\n') || rn.contains('\n') {
        info.newline = true;
    }
    let shorthand = include_subtypes && !is_inverse && (reference_type_id == ReferenceTypeId::HierarchicalReferences.into() || reference_type_id == ReferenceTypeId::Aggregates.into());
    if !shorthand {
        info.named_ref = true;
    }
    RelativePathElement { reference_type_id, is_inverse, include_subtypes, target_name }
}

fn roundtrip(ctx: &Ctx, c: &Case) -> PResult {
    let mut f = Filler::new(&c.data);
    let n = f.below(6) + if f.chance(8) { 27 } else { 0 };
    let mut info = Info { ns_ge_10: false, reserved: false, gt_in_name: false, newline: false, named_ref: false };
    let mut elements = Vec::new();
    for _ in 0..n.min(32) {
        let e = element(&mut f, &mut info);
        // documented limit: a token longer than MAX_TOKEN_LEN (256 bytes) is rejected
        let tok = 24 + escaped_len(e.target_name.name.as_ref()) + if let Identifier::String(s) = &e.reference_type_id.identifier { escaped_len(s.as_ref()) } else { 30 };
        if tok > 250 {
            ctx.excluded();
            return Ok(());
        }
        elements.push(e);
    }
    let path = RelativePath { elements: Some(elements) };
    if info.ns_ge_10 || info.reserved || info.named_ref {
        ctx.nontrivial();
    }
    if info.ns_ge_10 {
        ctx.class("namespace_ge_10");
    }
    if info.reserved {
        ctx.class("reserved_char_in_name");
    }
    if info.named_ref {
        ctx.class("named_reference_type");
    }
    if path.elements.iter().flatten().any(|e| e.target_name.name.is_null() && e.target_name.namespace_index > 0) {
        ctx.class("nameless_target_with_namespace");
    }
    ctx.class(&format!("elements_{}", match n { 0 => "0", 1 => "1", 2..=5 => "2_5", _ => "many" }));
    let s = String::from(&path);
    match RelativePath::from_str(&s, &RelativePathElement::default_node_resolver) {
        Ok(p) if p == path => Ok(()),
        Ok(p) => {
            let nameless = path.elements.iter().flatten().any(|e| e.target_name.name.is_null() && e.target_name.namespace_index > 0);
            let sig = if nameless && !info.gt_in_name && !info.newline {
                "differs/nameless-target-with-namespace"
            } else if info.gt_in_name {
                "differs/gt-in-name"
            } else if info.newline {
                "differs/newline-in-name"
            } else if info.ns_ge_10 {
                "differs/namespace-ge-10"
            } else {
                "differs"
            };
            ctx.fail(sig, format!("path {:?} printed {:?} parsed back as {:?}", path, s, p))
        }
        Err(()) => {
            let sig = if info.gt_in_name {
                "rejected/gt-in-name"
            } else if info.newline {
                "rejected/newline-in-name"
            } else {
                "rejected"
            };
            ctx.fail(sig, format!("path {:?} printed {:?} is rejected by the parser", path, s))
        }
    }
}

const PIECES: &[&str] = &[
    "/", ".", "<", ">", "#", "!", "&", ":", "0", "1", "10", "65535", "65536", "99999999999", "a", "HasChild", "é", "€", "𝄞", "\n", " ", "<#!", "<!", "&&", "&>", "0:", ":a", "<0:HasEncoding>",
];

fn parser_total(ctx: &Ctx, parts: &Vec<u8>) -> PResult {
    let s: String = parts.iter().map(|i| PIECES[*i as usize % PIECES.len()]).collect();
    let r = RelativePath::from_str(&s, &RelativePathElement::default_node_resolver);
    if let Ok(p) = &r {
        if p.elements.as_ref().map(|e| e.len()).unwrap_or(0) >= 2 {
            ctx.nontrivial();
            ctx.class("parsed_2_or_more_elements");
        }
    }
    if s.chars().any(|c| c.len_utf8() > 1) {
        ctx.nontrivial();
    }
    let _ = RelativePathElement::from_str(&s, &RelativePathElement::default_node_resolver);
    Ok(())
}

/// a long token around the documented 256 byte limit must be rejected or parsed, never panic
fn long_tokens(ctx: &Ctx, c: &(u16, u8)) -> PResult {
    let (len, ch) = c;
    let unit = ["a", "€", "&/", "𝄞"][*ch as usize % 4];
    let mut s = String::from("/0:");
    while s.len() < *len as usize {
        s.push_str(unit);
    }
    ctx.nontrivial();
    let _ = RelativePath::from_str(&s, &RelativePathElement::default_node_resolver);
    Ok(())
}

pub fn def() -> PropDef {
    PropDef {
        id: "C05",
        rule: "RelativePath values (0..32 elements; the 27 named ns-0 reference types and string-identified types in namespaces 0,1,9,10,255,65535; flags free; target namespace 0,1,9,10,99,65535; names over an alphabet with every reserved character, digits, non-ASCII, newline) printed and parsed back with default_node_resolver; plus strings assembled from grammar tokens and tokens around the 256-byte limit into the parser; non-trivial = an element with namespace >= 10, a reserved character in a name, or a <...> reference; distinct = distinct generator bytes; thorough adds a libFuzzer campaign (target c05_paths: strings that parse must print to a string that parses to the same path, segments over the parser's 256-byte limit excluded)",
        assumptions: &[
            "reference types that default_browse_name_resolver cannot name have no text form and are not generated",
            "a null target name is generated only with namespace 0 (the text form has no place for the index of a null name)",
            "tokens are kept under the documented MAX_TOKEN_LEN of 256 bytes",
        ],
        abort_possible: false,
        parts: |tier| {
            vec![
                part("roundtrip", tier.pick(30_000, 4_800_000), proptest::collection::vec(any::<u8>(), 0..200).prop_map(|data| Case { data }), roundtrip),
                part("parser_total", tier.pick(40_000, 6_000_000), proptest::collection::vec(any::<u8>(), 0..14), parser_total),
                part("long_tokens", tier.pick(2_000, 120_000), (200u16..330, any::<u8>()), long_tokens),
            ]
            .into_iter()
            .chain(if tier == Tier::Thorough { Some(part_fuzz("libfuzzer_c05_paths", "c05_paths", 2_000_000, 600)) } else { None })
            .collect()
        },
    }
}

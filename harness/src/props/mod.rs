use crate::engine::PropDef;

pub mod c01;
pub mod c02;
pub mod c03;
pub mod c04;
pub mod c05;
pub mod c06;
pub mod c07;
pub mod c08;
pub mod c09;
pub mod c10;
pub mod c11;
pub mod c12;
pub mod c13;
pub mod c14;
pub mod c15;
pub mod c16;
pub mod c17;
pub mod c18;
pub mod c19;
pub mod c20;
pub mod c21;
pub mod c22;
pub mod c23;
pub mod c24;
pub mod c25;
pub mod c26;
pub mod c27;
pub mod c28;
pub mod c29;
pub mod c30;
pub mod c31;
pub mod c32;
pub mod c33;
pub mod c34;
pub mod c35;
pub mod c36;
pub mod c37;
pub mod c38;
pub mod c39;
pub mod c40;
pub mod c41;
pub mod c42;

pub fn all() -> Vec<PropDef> {
    vec![c01::def(), c02::def(), c03::def(), c04::def(), c05::def(), c06::def(), c07::def(), c08::def(), c09::def(), c10::def(), c11::def(), c12::def(), c13::def(), c14::def(), c15::def(), c16::def(), c17::def(), c18::def(), c19::def(), c20::def(), c21::def(), c22::def(), c23::def(), c24::def(), c25::def(), c26::def(), c27::def(), c28::def(), c29::def(), c30::def(), c31::def(), c32::def(), c33::def(), c34::def(), c35::def(), c36::def(), c37::def(), c38::def(), c39::def(), c40::def(), c41::def(), c42::def()]
}

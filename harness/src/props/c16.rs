//! C16 — Encrypted user passwords round-trip, bind to the nonce, and never crash.
use crate::engine::*;
use crate::fixtures;
use opcua::crypto::user_identity::{decrypt_user_identity_token_password, legacy_password_decrypt, legacy_password_encrypt};
use opcua::crypto::{KeySize, RsaPadding};
use opcua::types::*;
use proptest::prelude::*;
use serde::{Deserialize, Serialize};

#[derive(Clone, Debug, Serialize, Deserialize)]
pub enum Variant_ {
    RoundTrip,
    /// decrypt with another nonce
    OtherNonce(Vec<u8>),
    /// arbitrary bytes as the secret (length chosen relative to the key size)
    RawSecret { len_mod: u16, blocks: u8, fill: u8 },
    /// a crafted plaintext (length prefix, body) encrypted with the real public key
    Crafted { prefix: u32, body: Vec<u8> },
    /// a crafted plaintext with a consistent length prefix; the server nonce is *defined* as the last `nonce_len` bytes of the
    /// whole plaintext, so the nonce comparison succeeds even when the nonce reaches into the length prefix
    CraftedTail { body: Vec<u8>, nonce_len: u8 },
    NullSecret,
}

#[derive(Clone, Debug, Serialize, Deserialize)]
pub struct Case {
    pub key: u8,
    pub padding: u8,
    pub password: String,
    pub nonce: Vec<u8>,
    pub variant: Variant_,
}

const KEYS: &[&str] = &["rsa1024a", "rsa2048a", "rsa4096a"];
const PADS: &[RsaPadding] = &[RsaPadding::Pkcs1, RsaPadding::OaepSha1, RsaPadding::OaepSha256];
const ALGS: &[&str] = &["http://www.w3.org/2001/04/xmlenc#rsa-1_5", "http://www.w3.org/2001/04/xmlenc#rsa-oaep", "http://opcfoundation.org/UA/security/rsa-oaep-sha2-256"];

fn check(ctx: &Ctx, c: &Case) -> PResult {
    let kname = KEYS[c.key as usize % 3];
    let pi = c.padding as usize % 3;
    let padding = PADS[pi];
    let key = fixtures::load_key(kname);
    let cert = fixtures::load_cert(kname);
    let key_bytes = key.size();
    ctx.class(&format!("{}_{:?}", kname, padding));
    let cell = format!("{}/{:?}", kname, padding);
    match &c.variant {
        Variant_::RoundTrip | Variant_::OtherNonce(_) => {
            let secret = match ctx.guard(|| legacy_password_encrypt(&c.password, &c.nonce, &cert, padding))? {
                Ok(s) => s,
                Err(e) => return ctx.fail(format!("encrypt-error/{}", cell), format!("encrypting password of {} bytes with nonce of {} bytes failed: {}", c.password.len(), c.nonce.len(), e)),
            };
            let blocks = secret.value.as_ref().map(|s| s.len()).unwrap_or(0) / key_bytes;
            if blocks > 1 {
                ctx.nontrivial();
                ctx.class("multi_block");
            }
            if c.password.is_empty() {
                ctx.class("empty_password");
            }
            if !c.password.is_ascii() {
                ctx.class("non_ascii_password");
            }
            match &c.variant {
                Variant_::RoundTrip => {
                    let r = ctx.guard(|| legacy_password_decrypt(&secret, &c.nonce, &key, padding))?;
                    if r.as_deref() != Ok(c.password.as_str()) {
                        return ctx.fail(format!("roundtrip/{}", cell), format!("password {:?} nonce {:02x?}: decrypt returned {:?}", c.password, c.nonce, r));
                    }
                    // and through the identity token entry point
                    let token = UserNameIdentityToken { policy_id: UAString::from("x"), user_name: UAString::from("u"), password: secret.clone(), encryption_algorithm: UAString::from(ALGS[pi]) };
                    let r2 = ctx.guard(|| decrypt_user_identity_token_password(&token, &c.nonce, &key))?;
                    if r2.as_deref() != Ok(c.password.as_str()) {
                        return ctx.fail(format!("roundtrip-token/{}", cell), format!("password {:?}: decrypt_user_identity_token_password returned {:?}", c.password, r2));
                    }
                    Ok(())
                }
                Variant_::OtherNonce(n2) => {
                    if *n2 == c.nonce {
                        return Ok(());
                    }
                    ctx.nontrivial();
                    let mut plain = c.password.as_bytes().to_vec();
                    plain.extend_from_slice(&c.nonce);
                    let r = ctx.guard(|| legacy_password_decrypt(&secret, n2, &key, padding))?;
                    if plain.ends_with(n2) {
                        // the Part 4 secret format has no nonce length: a nonce that is a byte-suffix of
                        // password||nonce is indistinguishable by construction of the format (counted, not asserted)
                        ctx.class("suffix_related_nonce");
                        ctx.excluded();
                        return Ok(());
                    }
                    if r.is_ok() {
                        return ctx.fail(format!("other-nonce-accepted/{}", cell), format!("password {:?} encrypted for nonce {:02x?} decrypts with nonce {:02x?} to {:?}", c.password, c.nonce, n2, r));
                    }
                    Ok(())
                }
                _ => unreachable!(),
            }
        }
        Variant_::RawSecret { len_mod, blocks, fill } => {
            let len = (*blocks as usize % 3) * key_bytes + (*len_mod as usize % key_bytes);
            let secret = ByteString::from(vec![*fill; len]);
            if len % key_bytes != 0 {
                ctx.nontrivial();
                ctx.class("secret_length_not_multiple_of_key_size");
            }
            let r = ctx.guard(|| legacy_password_decrypt(&secret, &c.nonce, &key, padding))?;
            if r.is_ok() {
                return ctx.fail(format!("garbage-accepted/{}", cell), format!("{} bytes of {:02x} decrypted to {:?}", len, fill, r));
            }
            Ok(())
        }
        Variant_::Crafted { prefix, body } => {
            // plaintext = prefix || body, encrypted with the genuine public key
            let mut plain = prefix.to_le_bytes().to_vec();
            plain.extend_from_slice(body);
            let pk = cert.public_key().map_err(|e| Failure { sig: "fixture".into(), detail: format!("{}", e) })?;
            let size = pk.calculate_cipher_text_size(plain.len(), padding);
            let mut dst = vec![0u8; size];
            let Ok(n) = pk.public_encrypt(&plain, &mut dst, padding) else { return Ok(()) };
            dst.truncate(n);
            ctx.nontrivial();
            ctx.class("crafted_plaintext");
            let r = ctx.guard(|| legacy_password_decrypt(&ByteString::from(dst), &c.nonce, &key, padding))?;
            // reference: Ok iff prefix == |body| and body ends with the nonce and the rest is UTF-8
            let expect_ok = *prefix as usize == body.len() && body.len() >= c.nonce.len() && body.ends_with(&c.nonce) && std::str::from_utf8(&body[..body.len() - c.nonce.len()]).is_ok();
            if body.len() < c.nonce.len() {
                ctx.class("crafted_body_shorter_than_nonce");
            }
            if r.is_ok() != expect_ok {
                return ctx.fail(format!("crafted/{}", if expect_ok { "valid-rejected" } else { "invalid-accepted" }), format!("crafted plaintext prefix {} body {:02x?} nonce {:02x?}: decrypt returned {:?}", prefix, body, c.nonce, r));
            }
            Ok(())
        }
        Variant_::CraftedTail { body, nonce_len } => {
            let mut plain = (body.len() as u32).to_le_bytes().to_vec();
            plain.extend_from_slice(body);
            let n = (*nonce_len as usize).min(plain.len());
            let nonce = plain[plain.len() - n..].to_vec();
            let pk = cert.public_key().map_err(|e| Failure { sig: "fixture".into(), detail: format!("{}", e) })?;
            let size = pk.calculate_cipher_text_size(plain.len(), padding);
            let mut dst = vec![0u8; size];
            let Ok(m) = pk.public_encrypt(&plain, &mut dst, padding) else { return Ok(()) };
            dst.truncate(m);
            ctx.nontrivial();
            ctx.class(if n > body.len() { "crafted_nonce_reaches_into_the_length_prefix" } else { "crafted_nonce_at_the_tail" });
            let r = ctx.guard(|| legacy_password_decrypt(&ByteString::from(dst), &nonce, &key, padding))?;
            // reference: the secret holds the nonce only if the body is at least as long as the nonce
            let expect_ok = n <= body.len() && std::str::from_utf8(&body[..body.len() - n]).is_ok();
            if r.is_ok() != expect_ok {
                return ctx.fail(format!("crafted-tail/{}", if expect_ok { "valid-rejected" } else { "invalid-accepted" }), format!("plaintext {:02x?} with the nonce defined as its last {} bytes: decrypt returned {:?}", plain, n, r));
            }
            Ok(())
        }
        Variant_::NullSecret => {
            let r = ctx.guard(|| legacy_password_decrypt(&ByteString::null(), &c.nonce, &key, padding))?;
            if r.is_ok() {
                return ctx.fail("null-secret-accepted", format!("{:?}", r));
            }
            Ok(())
        }
    }
}

fn password() -> impl Strategy<Value = String> {
    prop_oneof![
        Just(String::new()),
        "[ -~]{1,40}",
        proptest::collection::vec(proptest::sample::select(vec!["a", "é", "€", "𝄞", "語", " ", "\n", "\u{0}"]), 0..60).prop_map(|v| v.concat()),
        // lengths landing on / next to RSA plain-text block boundaries (62, 86, 117, 190, 214, 245, 446, 470, 501 minus 4 and nonce)
        (proptest::sample::select(vec![62usize, 86, 117, 190, 214, 245, 446, 470, 501, 124, 172, 234]), 0usize..40, -2i32..3).prop_map(|(b, n, d)| "p".repeat((b as i32 - 4 - n as i32 + d).max(0) as usize)),
        (300usize..512).prop_map(|n| "x".repeat(n)),
    ]
}

fn variant() -> impl Strategy<Value = Variant_> {
    prop_oneof![
        3 => Just(Variant_::RoundTrip),
        2 => proptest::collection::vec(any::<u8>(), 0..40).prop_map(Variant_::OtherNonce),
        3 => (any::<u16>(), any::<u8>(), any::<u8>()).prop_map(|(len_mod, blocks, fill)| Variant_::RawSecret { len_mod, blocks, fill }),
        3 => (prop_oneof![Just(0u32), Just(u32::MAX), 0u32..80, Just(1u32 << 31)], proptest::collection::vec(any::<u8>(), 0..60)).prop_map(|(prefix, body)| Variant_::Crafted { prefix, body }),
        // crafted with a consistent prefix so the decrypt gets past the length check
        3 => (proptest::collection::vec(any::<u8>(), 0..60), -2i32..3).prop_map(|(body, d)| Variant_::Crafted { prefix: (body.len() as i32 + d).max(0) as u32, body }),
        3 => (proptest::collection::vec(any::<u8>(), 0..48), 0i32..6, any::<bool>()).prop_map(|(body, over, inside)| {
            // nonce lengths around the body length: inside the body, exactly the body, 1..5 bytes into the prefix
            let nonce_len = if inside { (body.len() as i32 - over).max(0) } else { body.len() as i32 + over };
            Variant_::CraftedTail { body, nonce_len: nonce_len as u8 }
        }),
        1 => Just(Variant_::NullSecret),
    ]
}

pub fn def() -> PropDef {
    PropDef {
        id: "C16",
        rule: "passwords (empty, ASCII, multi-byte, lengths on and next to RSA block boundaries, up to 512 bytes) x nonces of 0..64 bytes x RSA 1024/2048/4096 x PKCS#1 / OAEP-SHA1 / OAEP-SHA256; round trip, decrypt under another nonce, arbitrary secrets with lengths in every residue class of the key size, crafted plaintexts (short / long / inconsistent length prefix, body shorter than the nonce; consistent prefix with the nonce defined as the tail of the whole plaintext, up to 5 bytes into the length prefix) encrypted with the real public key, null secret; non-trivial = multi-block ciphertext, crafted plaintext, wrong-length secret or other nonce; distinct = distinct case",
        assumptions: &["a different nonce that is a byte-suffix of password||nonce is indistinguishable by construction of the Part 4 secret format; such cases are counted and not asserted"],
        abort_possible: false,
        parts: |tier| {
            vec![part(
                "password",
                tier.pick(2_500, 60_000),
                (0u8..3, 0u8..3, password(), proptest::collection::vec(any::<u8>(), 0..64), variant()).prop_map(|(key, padding, password, nonce, variant)| Case { key, padding, password, nonce, variant }),
                check,
            )]
        },
    }
}

//! C15 — No service is processed before the handshake or after channel close.
use crate::engine::*;
use crate::srv::{self, Peer, SrvOpts};
use opcua::core::comms::chunker::Chunker;
use opcua::core::comms::message_chunk::MessageChunk;
use opcua::core::supported_message::SupportedMessage;
use opcua::server::prelude::*;
use proptest::prelude::*;
use serde::{Deserialize, Serialize};
use std::cell::RefCell;

#[derive(Clone, Debug, Serialize, Deserialize, PartialEq)]
pub enum Frame {
    Hel,
    OpnIssue,
    OpnRenew,
    /// an Issue the server has to refuse (security mode Invalid): no channel exists afterwards
    OpnRefused,
    /// 0 GetEndpoints, 1 FindServers, 2 CreateSession, 3 Read
    Msg(u8),
    Clo,
}

thread_local! {
    static SERVER: RefCell<Option<Server>> = const { RefCell::new(None) };
}

fn request(kind: u8, handle: u32) -> SupportedMessage {
    let mut h = RequestHeader::dummy();
    h.request_handle = handle;
    match kind % 4 {
        0 => GetEndpointsRequest { request_header: h, endpoint_url: UAString::from(srv::ENDPOINT_URL), locale_ids: None, profile_uris: None }.into(),
        1 => FindServersRequest { request_header: h, endpoint_url: UAString::from(srv::ENDPOINT_URL), locale_ids: None, server_uris: None }.into(),
        2 => CreateSessionRequest {
            request_header: h,
            client_description: ApplicationDescription::default(),
            server_uri: UAString::null(),
            endpoint_url: UAString::from(srv::ENDPOINT_URL),
            session_name: UAString::from("s"),
            client_nonce: ByteString::null(),
            client_certificate: ByteString::null(),
            requested_session_timeout: 60000.0,
            max_response_message_size: 0,
        }
        .into(),
        _ => ReadRequest { request_header: h, max_age: 0.0, timestamps_to_return: TimestampsToReturn::Both, nodes_to_read: Some(vec![ReadValueId::from(NodeId::new(0, 2258u32))]) }.into(),
    }
}

/// in-process: frames go to the connection's private handlers in the order the reading loop calls them
fn in_process(ctx: &Ctx, frames: &Vec<Frame>) -> PResult {
    let mut t = SERVER.with(|s| {
        let mut s = s.borrow_mut();
        if s.is_none() {
            *s = Some(srv::server(&SrvOpts::default()));
        }
        s.as_ref().unwrap().new_transport()
    });
    let mut peer = Peer::new();
    // model
    let mut hello_done = false;
    let mut channel_open = false;
    let mut handle = 500u32;
    let mut interesting = false;
    for (i, f) in frames.iter().enumerate() {
        handle += 1;
        match f {
            Frame::Hel => {
                if hello_done {
                    // a second HEL is not a chunk: the reading loop closes the connection
                    break;
                }
                let (r, out) = ctx.guard(|| t.verif_process_hello(Peer::hello(), 65535, 65535))?;
                if r.is_err() || !matches!(out.first(), Some((_, SupportedMessage::AcknowledgeMessage(_)))) {
                    return ctx.fail("hello-not-acknowledged", format!("{:?} / {} messages", r, out.len()));
                }
                hello_done = true;
            }
            other => {
                if !hello_done {
                    // before the acknowledged Hello the reading loop accepts nothing but a Hello (covered by the loopback part)
                    break;
                }
                let msg: SupportedMessage = match other {
                    Frame::OpnIssue | Frame::OpnRenew | Frame::OpnRefused => {
                        let mut m = peer.open_request();
                        if let (SupportedMessage::OpenSecureChannelRequest(r), Frame::OpnRenew) = (&mut m, other) {
                            r.request_type = SecurityTokenRequestType::Renew;
                        }
                        if let (SupportedMessage::OpenSecureChannelRequest(r), Frame::OpnRefused) = (&mut m, other) {
                            r.security_mode = MessageSecurityMode::Invalid;
                        }
                        m
                    }
                    Frame::Msg(k) => request(*k, handle),
                    _ => CloseSecureChannelRequest { request_header: RequestHeader::dummy() }.into(),
                };
                let chunks = peer.chunks(&msg, 0);
                let (r, out) = ctx.guard(|| t.verif_process_chunk(MessageChunk { data: chunks[0].data.clone() }))?;
                match other {
                    Frame::Msg(k) => {
                        if !channel_open {
                            interesting = true;
                            ctx.class("msg_before_open_secure_channel");
                            if let Some((_, m)) = out.iter().find(|(_, m)| m.request_handle() == handle) {
                                return ctx.fail("service-before-open-secure-channel", format!("frame {}: request kind {} sent before any OpenSecureChannel was answered with {:?}", i, k % 4, m.node_id()));
                            }
                            if !out.is_empty() {
                                return ctx.fail("service-before-open-secure-channel", format!("frame {}: {} message(s) were sent in reply to a request before any OpenSecureChannel", i, out.len()));
                            }
                        } else if r.is_ok() && out.is_empty() {
                            return ctx.fail("open-channel/request-ignored", format!("frame {}: request kind {} on an open channel got no answer", i, k % 4));
                        }
                    }
                    Frame::OpnIssue | Frame::OpnRefused => {
                        if *other == Frame::OpnRefused && !channel_open {
                            interesting = true;
                            ctx.class("refused_issue_before_any_channel");
                        }
                        if r.is_ok() && matches!(out.first(), Some((_, SupportedMessage::OpenSecureChannelResponse(_)))) {
                            if let Some((_, SupportedMessage::OpenSecureChannelResponse(resp))) = out.first() {
                                peer.channel.set_secure_channel_id(resp.security_token.channel_id);
                                peer.channel.set_token_id(resp.security_token.token_id);
                            }
                            channel_open = true;
                        }
                    }
                    Frame::OpnRenew => {
                        if !channel_open && matches!(out.first(), Some((_, SupportedMessage::OpenSecureChannelResponse(_)))) {
                            return ctx.fail("renew-without-issue-answered", format!("frame {}: a Renew on a connection that never issued a token was answered", i));
                        }
                    }
                    Frame::Clo => {
                        interesting = true;
                        ctx.class("close_secure_channel");
                        if r.is_ok() {
                            return ctx.fail("close/connection-stays-open", format!("frame {}: CloseSecureChannel returned Ok, so the reading loop keeps processing requests", i));
                        }
                        if !out.is_empty() {
                            return ctx.fail("close/answered", format!("frame {}: CloseSecureChannel produced {} message(s)", i, out.len()));
                        }
                    }
                    Frame::Hel => {}
                }
                if r.is_err() {
                    // the reading loop ends and the connection is dropped: nothing after this is processed
                    break;
                }
            }
        }
    }
    if interesting {
        ctx.nontrivial();
    }
    Ok(())
}

fn all_sequences(tier: Tier) -> Box<dyn Iterator<Item = Vec<Frame>>> {
    let alphabet = vec![Frame::Hel, Frame::OpnIssue, Frame::OpnRenew, Frame::OpnRefused, Frame::Msg(0), Frame::Msg(1), Frame::Msg(2), Frame::Msg(3), Frame::Clo];
    let max_len = if tier == Tier::Thorough { 5 } else { 4 };
    let mut all: Vec<Vec<Frame>> = vec![vec![]];
    let mut level: Vec<Vec<Frame>> = vec![vec![]];
    for _ in 0..max_len {
        let mut next = Vec::new();
        for s in &level {
            for a in &alphabet {
                let mut t = s.clone();
                t.push(a.clone());
                next.push(t);
            }
        }
        all.extend(next.iter().cloned());
        level = next;
    }
    Box::new(all.into_iter().filter(|s| !s.is_empty()))
}

// ---- loopback: the same histories over a real socket, which also covers the frames sent before the Hello --------

use std::io::{Read, Write};
use std::sync::OnceLock;

static LOOPBACK_PORT: OnceLock<u16> = OnceLock::new();

fn loopback_port() -> u16 {
    *LOOPBACK_PORT.get_or_init(|| {
        let port = crate::fixtures::free_port();
        let mut cfg = srv::config(&SrvOpts::default());
        cfg.tcp_config.port = port;
        cfg.tcp_config.hello_timeout = 3600;
        let server = Server::new(cfg);
        std::thread::spawn(move || server.run());
        // wait until the listener accepts
        for _ in 0..200 {
            if std::net::TcpStream::connect(("127.0.0.1", port)).is_ok() {
                return port;
            }
            std::thread::sleep(std::time::Duration::from_millis(25));
        }
        harness_error("loopback server did not start listening");
    })
}

#[derive(Debug, PartialEq)]
enum Event {
    Frame([u8; 4], Vec<u8>),
    Eof,
}

fn read_event(s: &mut std::net::TcpStream) -> Event {
    let mut hdr = [0u8; 8];
    let mut got = 0;
    while got < 8 {
        match s.read(&mut hdr[got..]) {
            Ok(0) => return Event::Eof,
            Ok(n) => got += n,
            Err(e) if matches!(e.kind(), std::io::ErrorKind::WouldBlock | std::io::ErrorKind::TimedOut) => {
                // silence is not a verdict
                println!("INCONCLUSIVE property=C15 loopback server neither answered nor closed within the watchdog");
                std::process::exit(2);
            }
            Err(_) => return Event::Eof,
        }
    }
    let size = u32::from_le_bytes([hdr[4], hdr[5], hdr[6], hdr[7]]) as usize;
    let mut rest = vec![0u8; size.saturating_sub(8).min(1 << 20)];
    if s.read_exact(&mut rest).is_err() {
        return Event::Eof;
    }
    let mut all = hdr.to_vec();
    all.extend_from_slice(&rest);
    Event::Frame([hdr[0], hdr[1], hdr[2], hdr[3]], all)
}

fn loopback(ctx: &Ctx, frames: &Vec<Frame>) -> PResult {
    let port = loopback_port();
    let mut sock = std::net::TcpStream::connect(("127.0.0.1", port)).map_err(|e| Failure { sig: "loopback/connect".into(), detail: e.to_string() })?;
    let _ = sock.set_read_timeout(Some(std::time::Duration::from_secs(20)));
    let _ = sock.set_nodelay(true);
    let mut peer = Peer::new();
    let mut hello_done = false;
    let mut channel_open = false;
    let mut handle = 900u32;
    let url = format!("opc.tcp://127.0.0.1:{}/", port);
    for (i, f) in frames.iter().enumerate() {
        handle += 1;
        let bytes: Vec<u8> = match f {
            Frame::Hel => opcua::core::comms::tcp_types::HelloMessage::new(&url, 65535, 65535, 0, 0).encode_to_vec(),
            Frame::OpnIssue | Frame::OpnRenew | Frame::OpnRefused => {
                let mut m = peer.open_request();
                if let (SupportedMessage::OpenSecureChannelRequest(r), Frame::OpnRenew) = (&mut m, f) {
                    r.request_type = SecurityTokenRequestType::Renew;
                }
                if let (SupportedMessage::OpenSecureChannelRequest(r), Frame::OpnRefused) = (&mut m, f) {
                    r.security_mode = MessageSecurityMode::Invalid;
                }
                peer.chunks(&m, 0)[0].data.clone()
            }
            Frame::Msg(k) => peer.chunks(&request(*k, handle), 0)[0].data.clone(),
            Frame::Clo => peer.chunks(&CloseSecureChannelRequest { request_header: RequestHeader::dummy() }.into(), 0)[0].data.clone(),
        };
        if sock.write_all(&bytes).is_err() {
            break;
        }
        let ev = read_event(&mut sock);
        let what = format!("history {:?}, frame {} ({:?}) -> {:?}", frames, i, f, ev);
        if !hello_done {
            ctx.nontrivial();
            ctx.class("frame_before_hello");
            match (f, &ev) {
                (Frame::Hel, Event::Frame(t, _)) if &t[..3] == b"ACK" => hello_done = true,
                (Frame::Hel, _) => return ctx.fail("loopback/hello-not-acknowledged", what),
                (_, Event::Eof) => break,
                (_, Event::Frame(t, _)) if &t[..3] == b"ERR" => break,
                (_, Event::Frame(_, _)) => return ctx.fail("loopback/answered-before-hello", what),
            }
            continue;
        }
        match f {
            Frame::Hel => match ev {
                Event::Eof => break,
                Event::Frame(t, _) if &t[..3] == b"ERR" => break,
                _ => return ctx.fail("loopback/second-hello-answered", what),
            },
            Frame::Msg(_) => {
                if !channel_open {
                    ctx.nontrivial();
                    match ev {
                        Event::Eof => break,
                        Event::Frame(t, _) if &t[..3] == b"ERR" => break,
                        _ => return ctx.fail("service-before-open-secure-channel", what),
                    }
                } else if ev == Event::Eof {
                    return ctx.fail("loopback/open-channel-request-dropped", what);
                }
            }
            Frame::OpnIssue | Frame::OpnRefused => match ev {
                Event::Frame(t, data) if &t[..3] == b"OPN" => {
                    // adopt the issued channel and token ids, as a client does
                    let chunk = MessageChunk { data };
                    match Chunker::decode(&[chunk], &peer.channel, None) {
                        Ok(SupportedMessage::OpenSecureChannelResponse(resp)) => {
                            peer.channel.set_secure_channel_id(resp.security_token.channel_id);
                            peer.channel.set_token_id(resp.security_token.token_id);
                            channel_open = true;
                        }
                        // a fault to a second Issue on an open channel changes nothing
                        _ => {}
                    }
                }
                Event::Eof => break,
                // a refusal travels as a ServiceFault in a MSG chunk and changes nothing
                Event::Frame(t, _) if &t[..3] == b"MSG" => {}
                Event::Frame(t, _) if &t[..3] == b"ERR" => break,
                _ => return ctx.fail("loopback/unexpected-answer-to-open", what),
            },
            Frame::OpnRenew => match ev {
                Event::Frame(t, _) if &t[..3] == b"OPN" && channel_open => {}
                Event::Frame(t, _) if &t[..3] == b"OPN" => return ctx.fail("renew-without-issue-answered", what),
                Event::Eof => break,
                Event::Frame(t, _) if &t[..3] == b"ERR" => break,
                // a ServiceFault to the renew (e.g. nonce reuse) travels in an OPN or MSG chunk
                Event::Frame(_, _) => {}
            },
            Frame::Clo => {
                ctx.nontrivial();
                if ev != Event::Eof {
                    return ctx.fail("close/answered", what);
                }
                break;
            }
        }
    }
    Ok(())
}

fn loopback_sequences(tier: Tier) -> Box<dyn Iterator<Item = Vec<Frame>>> {
    let max_len = if tier == Tier::Thorough { 3 } else { 2 };
    let alphabet = vec![Frame::Hel, Frame::OpnIssue, Frame::OpnRenew, Frame::OpnRefused, Frame::Msg(0), Frame::Msg(2), Frame::Msg(3), Frame::Clo];
    let mut all: Vec<Vec<Frame>> = Vec::new();
    let mut level: Vec<Vec<Frame>> = vec![vec![]];
    for _ in 0..max_len {
        let mut next = Vec::new();
        for s in &level {
            for a in &alphabet {
                let mut t = s.clone();
                t.push(a.clone());
                next.push(t);
            }
        }
        all.extend(next.iter().cloned());
        level = next;
    }
    // plus the longer histories that reach the open state
    for tail in [vec![Frame::Msg(0)], vec![Frame::Msg(3), Frame::Clo], vec![Frame::Clo, Frame::Msg(0)], vec![Frame::OpnRenew, Frame::Msg(1)], vec![Frame::Hel]] {
        let mut h = vec![Frame::Hel, Frame::OpnIssue];
        h.extend(tail);
        all.push(h);
    }
    Box::new(all.into_iter())
}

pub fn def() -> PropDef {
    PropDef {
        id: "C15",
        rule: "every sequence of up to 4 (thorough: 5) frames over {HEL, OPN(Issue), OPN(Renew), OPN(Issue that must be refused: security mode Invalid), MSG(GetEndpoints|FindServers|CreateSession|Read), CLO} delivered to a real server connection in-process, in the order its reading loop calls the private handlers, and every sequence of up to 2 (thorough: 3) frames plus selected longer ones over a loopback socket to a real running Server (one frame at a time, waiting for a complete frame or EOF), against the model WaitHello -> WaitOpen -> Open -> Closed; non-trivial = a MSG before any OpenSecureChannel, or a CLO; distinct = distinct sequence",
        assumptions: &["the rule that nothing but a Hello is accepted before the acknowledged Hello lives in the async reading loop; it is judged by the loopback part, the in-process part starts judging after the Hello", "on the socket a read timeout of 20 s is a watchdog: silence ends the run as inconclusive (exit 2), never as a verdict", "an error from a handler ends the reading loop (the connection is dropped), so nothing after it is processed"],
        abort_possible: false,
        parts: |_tier| vec![part_enum("in_process_all_sequences", all_sequences, in_process), part_enum("loopback_sequences", loopback_sequences, loopback)],
    }
}

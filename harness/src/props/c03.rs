//! C03 — Configured decoding limits are enforced exactly.
use crate::engine::*;
use bytes::BytesMut;
use opcua::core::comms::message_chunk::MessageChunk;
use opcua::core::comms::tcp_codec::TcpCodec;
use opcua::types::*;
use proptest::prelude::*;
use serde::{Deserialize, Serialize};
use std::io::{Cursor, Read};
use tokio_util::codec::Decoder;

#[derive(Clone, Debug, Serialize, Deserialize)]
pub struct Case {
    /// 0 string, 1 byte string, 2 xml element (variant only), 3 Option<Vec<i32>> via read_array, 4 variant array of Int32,
    /// 5 multi-dimension variant array (length probe), 6 dimension list of a multi-dimension array
    pub probe: u8,
    /// 0 bare, 1 in a Variant, 2 in DataValue(Variant), 3 in Variant(Variant), 4 field of a service struct, 5 field of a struct inside a message
    pub container: u8,
    pub limit: u32,
    /// index into the list of length classes relative to the limit
    pub len_class: u8,
    /// element kind of the variant array probes (4, 5): index into ELEMENT_KINDS; 0 = Int32
    #[serde(default)]
    pub elem: u8,
}

/// (built-in type id, encoding of one element) for the element kinds of variant arrays
const ELEMENT_KINDS: [(u8, &[u8]); 16] = [
    (6, &[1, 0, 0, 0]),
    (1, &[1]),
    (2, &[0xff]),
    (3, &[7]),
    (4, &[1, 0]),
    (5, &[1, 0]),
    (7, &[1, 0, 0, 0]),
    (8, &[1, 0, 0, 0, 0, 0, 0, 0]),
    (9, &[1, 0, 0, 0, 0, 0, 0, 0]),
    (10, &[0, 0, 0x80, 0x3f]),
    (11, &[0, 0, 0, 0, 0, 0, 0xf0, 0x3f]),
    (12, &[1, 0, 0, 0, b'a']),
    (13, &[0, 0, 0, 0, 0, 0, 0, 0]),
    (14, &[0; 16]),
    (15, &[1, 0, 0, 0, 7]),
    (19, &[0, 0, 0, 0]),
];

const LEN_CLASSES: usize = 9;

fn length_for(c: &Case) -> i64 {
    let l = c.limit as i64;
    match c.len_class as usize % LEN_CLASSES {
        0 => l - 1,
        1 => l,
        2 => l + 1,
        3 => -2,
        4 => -1,
        5 => 0,
        6 => i32::MAX as i64,
        7 => l / 2,
        _ => l + 1000,
    }
}

fn i32le(v: i64) -> [u8; 4] {
    (v as i32).to_le_bytes()
}

/// the probe's own encoding with declared length `len`; payload is supplied when it is at most limit+1000 long
fn probe_bytes(c: &Case, len: i64) -> Option<(Vec<u8>, u8)> {
    let supply = len >= 0 && len <= c.limit as i64 + 1000;
    let n = if supply { len as usize } else { 0 };
    let mut v = Vec::new();
    Some(match c.probe % 7 {
        0 | 2 => {
            v.extend(i32le(len));
            v.extend(std::iter::repeat(b'a').take(n));
            (v, if c.probe % 7 == 0 { 12 } else { 16 })
        }
        1 => {
            v.extend(i32le(len));
            v.extend(std::iter::repeat(7u8).take(n));
            (v, 15)
        }
        3 => {
            v.extend(i32le(len));
            for i in 0..n {
                v.extend((i as i32).to_le_bytes());
            }
            (v, 0)
        }
        4 => {
            let (kind, one) = ELEMENT_KINDS[c.elem as usize % ELEMENT_KINDS.len()];
            v.push(0x80 | kind);
            v.extend(i32le(len));
            for _ in 0..n {
                v.extend(one);
            }
            (v, 0xff)
        }
        5 => {
            // multi-dimension array [len, 1]
            let (kind, one) = ELEMENT_KINDS[c.elem as usize % ELEMENT_KINDS.len()];
            v.push(0xC0 | kind);
            v.extend(i32le(len));
            for _ in 0..n {
                v.extend(one);
            }
            v.extend(i32le(2));
            v.extend(i32le(len));
            v.extend(i32le(1));
            (v, 0xff)
        }
        _ => {
            // one element, `len` dimensions all equal to 1
            v.push(0xC6);
            v.extend(i32le(1));
            v.extend(5i32.to_le_bytes());
            v.extend(i32le(len));
            for _ in 0..n {
                v.extend(i32le(1));
            }
            (v, 0xff)
        }
    })
}

enum Decoded {
    Str(UAString),
    Bytes(ByteString),
    I32s(Option<Vec<i32>>),
    Var(Variant),
}

/// Wraps the probe into the container and decodes; returns Ok(inner length observed) or Err
fn decode_in_container(c: &Case, len: i64) -> Option<Result<Option<usize>, StatusCode>> {
    let (probe, vmask) = probe_bytes(c, len)?;
    let p = c.probe % 7;
    let mut o = DecodingOptions::default();
    match p {
        0 | 2 => o.max_string_length = c.limit as usize,
        1 => o.max_byte_string_length = c.limit as usize,
        _ => o.max_array_length = c.limit as usize,
    }
    // a variant-level probe is already a Variant encoding; scalar probes get the scalar mask
    let as_variant: Option<Vec<u8>> = if vmask == 0xff {
        Some(probe.clone())
    } else if vmask != 0 {
        let mut v = vec![vmask];
        v.extend(&probe);
        Some(v)
    } else {
        None
    };
    let observe_variant = |v: &Variant| -> Option<usize> {
        match v {
            Variant::String(s) | Variant::XmlElement(s) => s.value().as_ref().map(|s| s.len()),
            Variant::ByteString(b) => b.value.as_ref().map(|b| b.len()),
            Variant::Array(a) => {
                if c.probe % 7 == 6 {
                    a.dimensions.as_ref().map(|d| d.len())
                } else {
                    Some(a.values.len())
                }
            }
            Variant::Variant(inner) => match &**inner {
                Variant::String(s) | Variant::XmlElement(s) => s.value().as_ref().map(|s| s.len()),
                Variant::ByteString(b) => b.value.as_ref().map(|b| b.len()),
                Variant::Array(a) => {
                    if c.probe % 7 == 6 {
                        a.dimensions.as_ref().map(|d| d.len())
                    } else {
                        Some(a.values.len())
                    }
                }
                _ => None,
            },
            _ => None,
        }
    };
    let container = c.container % 6;
    Some(match container {
        0 => {
            let mut rd = Cursor::new(probe.as_slice());
            let d = match p {
                0 => UAString::decode(&mut rd, &o).map(Decoded::Str),
                1 => ByteString::decode(&mut rd, &o).map(Decoded::Bytes),
                2 => XmlElement::decode(&mut rd, &o).map(Decoded::Str),
                3 => read_array::<_, i32>(&mut rd, &o).map(Decoded::I32s),
                _ => Variant::decode(&mut rd, &o).map(Decoded::Var),
            };
            d.map(|d| match d {
                Decoded::Str(s) => s.value().as_ref().map(|s| s.len()),
                Decoded::Bytes(b) => b.value.as_ref().map(|b| b.len()),
                Decoded::I32s(a) => a.map(|a| a.len()),
                Decoded::Var(v) => observe_variant(&v),
            })
        }
        1 | 2 | 3 => {
            let inner = as_variant?;
            let bytes: Vec<u8> = match container {
                1 => inner,
                2 => {
                    let mut v = vec![0x01];
                    v.extend(inner);
                    v
                }
                _ => {
                    let mut v = vec![0x18];
                    v.extend(inner);
                    v
                }
            };
            let mut rd = Cursor::new(bytes.as_slice());
            if container == 2 {
                DataValue::decode(&mut rd, &o).map(|d| d.value.as_ref().and_then(observe_variant))
            } else {
                Variant::decode(&mut rd, &o).map(|v| observe_variant(&v))
            }
        }
        4 => {
            // field of a service structure
            match p {
                0 => {
                    // ReadValueId { node_id, attribute_id, index_range: UAString, data_encoding }
                    let mut v = vec![0x00, 0x00, 13, 0, 0, 0];
                    v.extend(&probe);
                    v.extend([0, 0, 0xff, 0xff, 0xff, 0xff]);
                    let mut rd = Cursor::new(v.as_slice());
                    ReadValueId::decode(&mut rd, &o).map(|r| r.index_range.value().as_ref().map(|s| s.len()))
                }
                1 => {
                    // SignatureData { algorithm: UAString, signature: ByteString }
                    let mut v = vec![0xff, 0xff, 0xff, 0xff];
                    v.extend(&probe);
                    let mut rd = Cursor::new(v.as_slice());
                    SignatureData::decode(&mut rd, &o).map(|r| r.signature.value.as_ref().map(|s| s.len()))
                }
                3 => {
                    // Argument { name, data_type, value_rank, array_dimensions: Option<Vec<u32>>, description }
                    let mut v = vec![0xff, 0xff, 0xff, 0xff, 0x00, 0x00, 1, 0, 0, 0];
                    v.extend(&probe);
                    v.push(0x00);
                    let mut rd = Cursor::new(v.as_slice());
                    service_types::Argument::decode(&mut rd, &o).map(|r| r.array_dimensions.map(|s| s.len()))
                }
                _ => {
                    // WriteValue { node_id, attribute_id, index_range, value: DataValue }
                    let inner = as_variant?;
                    let mut v = vec![0x00, 0x00, 13, 0, 0, 0, 0xff, 0xff, 0xff, 0xff, 0x01];
                    v.extend(inner);
                    let mut rd = Cursor::new(v.as_slice());
                    WriteValue::decode(&mut rd, &o).map(|r| r.value.value.as_ref().and_then(observe_variant))
                }
            }
        }
        _ => {
            // a structure inside a request message: CallRequest { header, methods_to_call: [CallMethodRequest { object_id, method_id, input_arguments: [Variant] }] }
            let inner = as_variant?;
            let hdr = RequestHeader::dummy();
            let mut v = hdr.encode_to_vec();
            v.extend(1i32.to_le_bytes());
            v.extend([0x00, 0x00, 0x00, 0x00]);
            v.extend(1i32.to_le_bytes());
            v.extend(inner);
            let mut rd = Cursor::new(v.as_slice());
            CallRequest::decode(&mut rd, &o).map(|r| {
                r.methods_to_call.as_ref().and_then(|m| m.first()).and_then(|m| m.input_arguments.as_ref()).and_then(|a| a.first()).and_then(observe_variant)
            })
        }
    })
}

fn check(ctx: &Ctx, c: &Case) -> PResult {
    let len = length_for(c);
    let Some(r) = decode_in_container(c, len) else {
        ctx.excluded(); // this probe has no encoding in this container (e.g. Option<Vec<i32>> inside a Variant)
        return Ok(());
    };
    let limit = c.limit as i64;
    if (len - limit).abs() <= 1 && c.container % 6 >= 1 {
        ctx.nontrivial();
    }
    ctx.class(&format!("probe_{}_container_{}", c.probe % 7, c.container % 6));
    let what = format!("probe {} in container {} with limit {} and declared length {}", c.probe % 7, c.container % 6, limit, len);
    // a multi-dimension array with a zero dimension is invalid irrespective of limits: skip those lengths
    if c.probe % 7 == 5 && len == 0 {
        ctx.excluded();
        return Ok(());
    }
    if c.probe % 7 == 6 && len <= 0 {
        ctx.excluded();
        return Ok(());
    }
    if len < -1 {
        return match r {
            Err(_) => Ok(()),
            Ok(_) => ctx.fail(format!("negative-length-accepted/probe-{}", c.probe % 7), what),
        };
    }
    if len == -1 {
        return match r {
            Ok(None) => Ok(()),
            // an array of variant values with length -1 is decoded as an empty array
            Ok(Some(0)) if c.probe % 7 >= 4 => Ok(()),
            other => ctx.fail(format!("null-length/probe-{}", c.probe % 7), format!("{} gave {:?}", what, other)),
        };
    }
    if len > limit {
        return match r {
            Err(_) => {
                ctx.class("rejected_over_limit");
                Ok(())
            }
            Ok(_) => ctx.fail(format!("over-limit-accepted/probe-{}", c.probe % 7), what),
        };
    }
    match r {
        Ok(Some(n)) if n as i64 == len => {
            ctx.class("accepted_within_limit");
            Ok(())
        }
        Ok(other) => ctx.fail(format!("wrong-length/probe-{}", c.probe % 7), format!("{} decoded with observed length {:?}", what, other)),
        Err(e) => ctx.fail(format!("within-limit-rejected/probe-{}", c.probe % 7), format!("{} was rejected with {}", what, e)),
    }
}

struct CountingReader<'a> {
    inner: Cursor<&'a [u8]>,
    requested: usize,
}
impl<'a> Read for CountingReader<'a> {
    fn read(&mut self, buf: &mut [u8]) -> std::io::Result<usize> {
        self.requested += buf.len();
        self.inner.read(buf)
    }
}

#[derive(Clone, Debug, Serialize, Deserialize)]
pub struct ChunkCase {
    pub max_message_size: u32,
    pub delta: i8,
    pub huge: bool,
    pub body_present: bool,
}

fn chunk_check(ctx: &Ctx, c: &ChunkCase) -> PResult {
    let max = c.max_message_size as usize;
    let declared: u32 = if c.huge { [u32::MAX, 0x7fff_ffff, 0x0100_0000][c.delta.unsigned_abs() as usize % 3] } else { (c.max_message_size as i64 + c.delta as i64).max(12) as u32 };
    if (declared as i64 - max as i64).abs() <= 1 {
        ctx.nontrivial();
    }
    let mut frame = b"MSGF".to_vec();
    frame.extend(declared.to_le_bytes());
    frame.extend(7u32.to_le_bytes());
    if c.body_present && (declared as usize) < (1 << 22) {
        frame.resize(declared as usize, 0xEE);
    } else {
        frame.extend([0u8; 24]);
    }
    let o = DecodingOptions { max_message_size: max, ..DecodingOptions::default() };
    let mut rd = CountingReader { inner: Cursor::new(frame.as_slice()), requested: 0 };
    let r = MessageChunk::decode(&mut rd, &o);
    let over = max > 0 && declared as usize > max;
    if over {
        ctx.class("chunk_over_limit");
        if r.is_ok() {
            return ctx.fail("chunk/over-limit-accepted", format!("chunk with declared size {} accepted under max_message_size {}", declared, max));
        }
        if rd.requested > 12 {
            return ctx.fail("chunk/body-read-before-reject", format!("chunk with declared size {} over max {}: {} bytes were requested from the stream before rejecting", declared, max, rd.requested));
        }
    } else if c.body_present && (declared as usize) < (1 << 22) {
        ctx.class("chunk_within_limit");
        match r {
            Ok(ch) if ch.data.len() == declared as usize => {}
            Ok(ch) => return ctx.fail("chunk/wrong-size", format!("declared {} decoded {} bytes", declared, ch.data.len())),
            Err(e) => return ctx.fail("chunk/within-limit-rejected", format!("chunk with declared size {} rejected ({}) under max {}", declared, e, max)),
        }
    }
    // the same frame through the framing layer, whole frame present
    if c.body_present && (declared as usize) < (1 << 22) {
        let mut codec = TcpCodec::new(o.clone());
        let mut buf = BytesMut::from(frame.as_slice());
        let r = codec.decode(&mut buf);
        if over {
            if matches!(r, Ok(Some(_))) {
                return ctx.fail("codec/over-limit-accepted", format!("codec delivered a frame of declared size {} under max {}", declared, max));
            }
        } else if !matches!(r, Ok(Some(_))) {
            return ctx.fail("codec/within-limit-rejected", format!("codec did not deliver a complete frame of size {} under max {}: {:?}", declared, max, r.map(|m| m.is_some())));
        }
    }
    // and with nothing but the header in the buffer: an over-limit frame is refused on its header, the codec does not wait for
    // (and buffer) the body
    if over {
        let mut codec = TcpCodec::new(o.clone());
        let mut buf = BytesMut::from(&frame[..12.min(frame.len())]);
        match codec.decode(&mut buf) {
            Err(_) => {}
            Ok(Some(_)) => return ctx.fail("codec/over-limit-accepted", format!("codec delivered a frame from the header of a frame of declared size {} under max {}", declared, max)),
            Ok(None) => return ctx.fail("codec/waits-for-over-limit-body", format!("codec waits for the body of a frame whose header declares {} bytes under max_message_size {}", declared, max)),
        }
    }
    Ok(())
}

pub fn def() -> PropDef {
    PropDef {
        id: "C03",
        rule: "a length probe (string, byte string, xml element, Option<Vec<i32>>, variant array and multi-dimension array of each of 16 element kinds, dimension list) with declared length in {limit-1, limit, limit+1, -2, -1, 0, i32::MAX, limit/2, limit+1000} placed bare / in a Variant / in DataValue(Variant) / in Variant(Variant) / as a field of a service structure / inside a request message, under a generated limit; chunks and frames with declared size around max_message_size read from a byte-counting reader and given to the framing codec whole and as a bare header; non-trivial = |length - limit| <= 1 at nesting level >= 1 (or chunk size within 1 of the limit); distinct = distinct (probe, container, limit, length)",
        assumptions: &["only the probed limit is small; the other limits keep their defaults", "status codes are not compared (the property does not constrain them)"],
        abort_possible: false,
        parts: |tier| {
            vec![
                part(
                    "length_probe",
                    tier.pick(40_000, 8_000_000),
                    (0u8..7, 0u8..6, prop_oneof![8u32..3000, 3000u32..70_000], 0u8..LEN_CLASSES as u8, prop_oneof![1 => Just(0u8), 3 => 0u8..ELEMENT_KINDS.len() as u8]).prop_map(|(probe, container, limit, len_class, elem)| {
                        // array probes use element counts; keep them small enough to materialise
                        let limit = if probe >= 3 { 8 + limit % 2992 } else { limit };
                        Case { probe, container, limit, len_class, elem }
                    }),
                    check,
                ),
                part(
                    "chunk_size",
                    tier.pick(15_000, 2_400_000),
                    (prop_oneof![Just(0u32), Just(8196u32), Just(65535u32), Just(327675u32), 12u32..100_000], -3i8..4, proptest::bool::weighted(0.15), any::<bool>())
                        .prop_map(|(max_message_size, delta, huge, body_present)| ChunkCase { max_message_size, delta, huge, body_present }),
                    chunk_check,
                ),
            ]
        },
    }
}

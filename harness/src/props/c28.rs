//! C28 — The reference index always matches the set of references.
use crate::engine::*;
use opcua::server::address_space::references::References;
use opcua::types::{NodeId, ReferenceTypeId};
use proptest::prelude::*;
use serde::{Deserialize, Serialize};
use std::collections::BTreeSet;

#[derive(Clone, Debug, Serialize, Deserialize)]
pub enum Op {
    Insert(u8, u8, u8),
    Delete(u8, u8, u8),
    /// insert the reverse of the k-th reference currently in the model
    InsertOpposite(u16, u8),
    /// insert a parallel reference (other type) next to the k-th reference in the model
    InsertParallel(u16, u8),
    /// delete the k-th reference currently in the model
    DeleteExisting(u16),
    DeleteNode(u8),
}

const NODES: u8 = 5;
const TYPES: u8 = 3;

fn node(i: u8) -> NodeId {
    NodeId::new(1, (i % NODES) as u32 + 100)
}
fn rtype(t: u8) -> NodeId {
    match t % TYPES {
        0 => ReferenceTypeId::Organizes.into(),
        1 => ReferenceTypeId::HasComponent.into(),
        _ => ReferenceTypeId::HasProperty.into(),
    }
}

fn op_strategy() -> impl Strategy<Value = Op> {
    prop_oneof![
        4 => (0..NODES, 0..NODES, 0..TYPES).prop_map(|(a, b, t)| Op::Insert(a, b, t)),
        2 => (0..NODES, 0..NODES, 0..TYPES).prop_map(|(a, b, t)| Op::Delete(a, b, t)),
        2 => (any::<u16>(), 0..TYPES).prop_map(|(k, t)| Op::InsertOpposite(k, t)),
        1 => (any::<u16>(), 0..TYPES).prop_map(|(k, t)| Op::InsertParallel(k, t)),
        3 => any::<u16>().prop_map(Op::DeleteExisting),
        1 => (0..NODES).prop_map(Op::DeleteNode),
    ]
}

type Model = BTreeSet<(u8, u8, u8)>; // (src, type, dst)

fn pick(model: &Model, k: u16) -> Option<(u8, u8, u8)> {
    if model.is_empty() {
        None
    } else {
        let i = (k as usize * model.len()) >> 16;
        model.iter().nth(i).copied()
    }
}

fn check_all(ctx: &Ctx, refs: &References, model: &Model, step: usize) -> PResult {
    for n in 0..NODES {
        // forward
        let mut got: Vec<(u8, u8)> = Vec::new();
        if let Some(rs) = refs.find_references(&node(n), None::<(NodeId, bool)>) {
            for r in rs {
                let t = (0..TYPES).find(|t| rtype(*t) == r.reference_type);
                let d = (0..NODES).find(|d| node(*d) == r.target_node);
                match (t, d) {
                    (Some(t), Some(d)) => got.push((t, d)),
                    _ => return ctx.fail("forward/invented", format!("step {}: node {} reports unknown reference {:?}", step, n, r)),
                }
            }
        }
        got.sort();
        let want: Vec<(u8, u8)> = model.iter().filter(|r| r.0 == n).map(|r| (r.1, r.2)).collect();
        if got != want {
            let sig = if got.len() < want.len() { "forward/missing" } else { "forward/extra" };
            ctx.fail(sig, format!("step {}: forward references of node {}: got {:?} want {:?} (type,dst)", step, n, got, want))?;
        }
        // inverse
        let mut goti: Vec<(u8, u8)> = Vec::new();
        if let Some(rs) = refs.find_inverse_references(&node(n), None::<(NodeId, bool)>) {
            for r in rs {
                let t = (0..TYPES).find(|t| rtype(*t) == r.reference_type);
                let s = (0..NODES).find(|d| node(*d) == r.target_node);
                match (t, s) {
                    (Some(t), Some(s)) => goti.push((t, s)),
                    _ => return ctx.fail("inverse/invented", format!("step {}: node {} reports unknown inverse reference {:?}", step, n, r)),
                }
            }
        }
        goti.sort();
        let wanti: Vec<(u8, u8)> = {
            let mut v: Vec<(u8, u8)> = model.iter().filter(|r| r.2 == n).map(|r| (r.1, r.0)).collect();
            v.sort();
            v
        };
        if goti != wanti {
            let sig = if goti.len() < wanti.len() { "inverse/missing" } else { "inverse/extra" };
            ctx.fail(sig, format!("step {}: inverse references of node {}: got {:?} want {:?} (type,src)", step, n, goti, wanti))?;
        }
        for d in 0..NODES {
            for t in 0..TYPES {
                let has = refs.has_reference(&node(n), &node(d), rtype(t));
                if has != model.contains(&(n, t, d)) {
                    ctx.fail("has_reference", format!("step {}: has_reference({},{},type {}) = {} but model says {}", step, n, d, t, has, !has))?;
                }
            }
        }
    }
    Ok(())
}

fn run(ctx: &Ctx, ops: &Vec<Op>) -> PResult {
    let mut refs = References::default();
    let mut model: Model = BTreeSet::new();
    let mut nontrivial = false;
    for (step, op) in ops.iter().enumerate() {
        match op.clone() {
            Op::Insert(a, b, t) => {
                if a == b {
                    // a self-reference is rejected by a documented panic!; outside this property's domain (see C33)
                    ctx.excluded();
                    continue;
                }
                refs.insert_reference(&node(a), &node(b), &rtype(t));
                model.insert((a, t, b));
                ctx.class("insert");
            }
            Op::InsertOpposite(k, t) => {
                if let Some((s, _, d)) = pick(&model, k) {
                    refs.insert_reference(&node(d), &node(s), &rtype(t));
                    model.insert((d, t, s));
                    ctx.class("insert_opposite");
                }
            }
            Op::InsertParallel(k, t) => {
                if let Some((s, _, d)) = pick(&model, k) {
                    refs.insert_reference(&node(s), &node(d), &rtype(t));
                    model.insert((s, t, d));
                    ctx.class("insert_parallel");
                }
            }
            Op::Delete(a, b, t) => {
                let was = model.remove(&(a, t, b));
                if was && (model.iter().any(|r| r.0 == b && r.2 == a) || model.iter().any(|r| r.0 == a && r.2 == b)) {
                    nontrivial = true;
                }
                let got = refs.delete_reference(&node(a), &node(b), rtype(t));
                ctx.class(if was { "delete_present" } else { "delete_absent" });
                if got != was {
                    ctx.fail("delete/return-value", format!("step {}: delete_reference returned {} but reference was {}", step, got, if was { "present" } else { "absent" }))?;
                }
            }
            Op::DeleteExisting(k) => {
                if let Some((s, t, d)) = pick(&model, k) {
                    model.remove(&(s, t, d));
                    if model.iter().any(|r| r.0 == d && r.2 == s) || model.iter().any(|r| r.0 == s && r.2 == d) {
                        nontrivial = true;
                        ctx.class("delete_with_opposite_or_parallel");
                    }
                    let got = refs.delete_reference(&node(s), &node(d), rtype(t));
                    if !got {
                        ctx.fail("delete/return-value", format!("step {}: delete_reference of an existing reference returned false", step))?;
                    }
                }
            }
            Op::DeleteNode(n) => {
                let had = model.iter().any(|r| r.0 == n || r.2 == n);
                model.retain(|r| r.0 != n && r.2 != n);
                let got = refs.delete_node_references(&node(n));
                ctx.class("delete_node");
                if got != had {
                    ctx.fail("delete_node/return-value", format!("step {}: delete_node_references returned {} but node had references: {}", step, got, had))?;
                }
            }
        }
        check_all(ctx, &refs, &model, step)?;
    }
    if nontrivial {
        ctx.nontrivial();
    }
    Ok(())
}

pub fn def() -> PropDef {
    PropDef {
        id: "C28",
        rule: "history of insert/delete/delete-node operations over 5 nodes x 3 reference types against a BTreeSet model, checked after every step; non-trivial = a reference is deleted while an opposite-direction or parallel reference between the same two nodes exists; distinct = distinct operation history",
        assumptions: &["self-references are outside the domain (documented panic in insert_reference; service-level reachability belongs to C33)", "reference type filters are exercised by C30/C31, not here"],
        abort_possible: false,
        parts: |tier| vec![part("history", tier.pick(4000, 150_000), proptest::collection::vec(op_strategy(), 0..60), run)],
    }
}

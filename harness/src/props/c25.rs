//! C25 — Data change filters report exactly the changes they describe.
use crate::engine::*;
use crate::srv;
use opcua::server::prelude::*;
use opcua::server::subscriptions::monitored_item::Notification;
use opcua::verif::server::MonitoredItemProbe;
use proptest::prelude::*;
use serde::{Deserialize, Serialize};
use std::cell::RefCell;

#[derive(Clone, Debug, Serialize, Deserialize, PartialEq)]
pub struct Sample {
    /// how the value moves relative to the previous sample: index into the step table of the value kind
    pub step: u8,
    /// 0 keep the status, 1.. switch to another status
    pub status: u8,
    /// change source and server timestamp (together)
    pub new_timestamp: bool,
}

#[derive(Clone, Debug, Serialize, Deserialize, PartialEq)]
pub struct Case {
    /// 0 Status, 1 StatusValue, 2 StatusValueTimestamp
    pub trigger: u8,
    /// 0 None, 1 Absolute, 2 Percent, 3 and 7 undefined
    pub deadband_type: u32,
    /// index into DEADBANDS
    pub deadband: u8,
    /// 0 Int32, 1 Double, 2 Byte, 3 Float, 4 String, 5 Boolean, 6 UInt64
    pub kind: u8,
    pub samples: Vec<Sample>,
    /// what the subscriber asked for: 0 Both, 1 Source, 2 Server, 3 Neither (what is *returned* must not influence what the
    /// filter *compares*)
    #[serde(default)]
    pub timestamps_to_return: u8,
    /// the item is created without a filter and the filter of the case is installed with a modify request
    #[serde(default)]
    pub via_modify: bool,
}

const DEADBANDS: [f64; 7] = [0.0, 0.5, 1.0, 10.0, -1.0, f64::NAN, 2.5];
const STATUSES: [StatusCode; 4] = [StatusCode::Good, StatusCode::UncertainLastUsableValue, StatusCode::BadSensorFailure, StatusCode::GoodClamped];
/// numeric steps: multiples of the deadband (applied to a running value), chosen to land on, just below and just above it
const STEPS: [f64; 10] = [0.0, 0.25, 0.5, 1.0, 1.5, 2.0, 2.5, 10.0, 11.0, -1.0];

fn case() -> impl Strategy<Value = Case> {
    (
        0u8..3,
        prop_oneof![3 => Just(0u32), 4 => Just(1u32), 2 => Just(2u32), 1 => Just(3u32), 1 => Just(7u32)],
        prop_oneof![6 => 0u8..4, 1 => Just(4u8), 1 => Just(5u8), 2 => Just(6u8)],
        prop_oneof![3 => Just(0u8), 3 => Just(1u8), 1 => 2u8..7],
        prop::collection::vec((0u8..STEPS.len() as u8, prop_oneof![4 => Just(0u8), 1 => 1u8..4], proptest::bool::weighted(0.3)).prop_map(|(step, status, new_timestamp)| Sample { step, status, new_timestamp }), 1..25),
        prop_oneof![2 => Just(0u8), 1 => 1u8..4],
        proptest::bool::weighted(0.3),
    )
        .prop_map(|(trigger, deadband_type, deadband, kind, samples, timestamps_to_return, via_modify)| Case { trigger, deadband_type, deadband, kind, samples, timestamps_to_return, via_modify })
}

thread_local! {
    static SPACE: RefCell<Option<AddressSpace>> = const { RefCell::new(None) };
}

fn probe_id() -> NodeId {
    NodeId::new(1, "c25-probe")
}

fn with_space<T>(f: impl FnOnce(&mut AddressSpace) -> T) -> T {
    SPACE.with(|s| {
        let mut s = s.borrow_mut();
        if s.is_none() {
            let mut a = AddressSpace::new();
            VariableBuilder::new(&probe_id(), "c25probe", "c25probe").data_type(DataTypeId::BaseDataType).value(0i32).organized_by(ObjectId::ObjectsFolder).insert(&mut a);
            *s = Some(a);
        }
        f(s.as_mut().unwrap())
    })
}

fn make_value(kind: u8, x: f64, n: usize) -> Variant {
    match kind % 7 {
        0 => Variant::Int32(x.round() as i32),
        1 => Variant::Double(x),
        2 => Variant::Byte((x.round().rem_euclid(200.0)) as u8),
        3 => Variant::Float(x as f32),
        4 => Variant::from(format!("s{}", (x * 4.0).round() as i64)),
        5 => Variant::Boolean((x.round() as i64) % 2 != 0),
        _ => {
            let _ = n;
            Variant::UInt64(1_000_000 + x.round() as i64 as u64)
        }
    }
}

fn num(v: &Variant) -> Option<f64> {
    match v {
        Variant::Int32(v) => Some(*v as f64),
        Variant::Double(v) => Some(*v),
        Variant::Byte(v) => Some(*v as f64),
        Variant::Float(v) => Some(*v as f64),
        Variant::UInt64(v) => Some(*v as f64),
        _ => None,
    }
}

#[derive(Clone, Debug)]
struct Seen {
    value: Variant,
    status: StatusCode,
    ts: i64,
}

fn run(ctx: &Ctx, c: &Case) -> PResult {
    let server = srv::worker_server(false);
    let state = server.server_state();
    let state = state.read();
    let deadband = DEADBANDS[c.deadband as usize % DEADBANDS.len()];
    let trigger = [DataChangeTrigger::Status, DataChangeTrigger::StatusValue, DataChangeTrigger::StatusValueTimestamp][c.trigger as usize % 3];
    let filter = ExtensionObject::from_encodable(ObjectId::DataChangeFilter_Encoding_DefaultBinary, &DataChangeFilter { trigger, deadband_type: c.deadband_type, deadband_value: deadband });
    let t0 = chrono::Utc::now() + chrono::Duration::hours(1);
    let request = MonitoredItemCreateRequest {
        item_to_monitor: ReadValueId { node_id: probe_id(), attribute_id: AttributeId::Value as u32, index_range: UAString::null(), data_encoding: QualifiedName::null() },
        monitoring_mode: MonitoringMode::Reporting,
        requested_parameters: MonitoringParameters { client_handle: 7, sampling_interval: -1.0, filter: if c.via_modify { ExtensionObject::null() } else { filter.clone() }, queue_size: 10, discard_oldest: true },
    };
    ctx.class(&format!("deadband_type_{}", c.deadband_type));
    // acceptance, as CreateMonitoredItems decides it: the item can be built and its filter validates
    let ttr = [TimestampsToReturn::Both, TimestampsToReturn::Source, TimestampsToReturn::Server, TimestampsToReturn::Neither][c.timestamps_to_return as usize % 4];
    let created = ctx.guard(|| MonitoredItemProbe::new(&t0, 1, ttr, &state, &request).and_then(|i| with_space(|a| i.validate_filter(a)).map(|_| i)))?;
    let created = if c.via_modify {
        ctx.class("filter_installed_by_modify");
        match created {
            // acceptance, as ModifyMonitoredItems decides it
            Ok(mut i) => {
                let m = MonitoredItemModifyRequest { monitored_item_id: 1, requested_parameters: MonitoringParameters { client_handle: 7, sampling_interval: -1.0, filter: filter.clone(), queue_size: 10, discard_oldest: true } };
                ctx.guard(|| with_space(|a| i.modify(&state, a, ttr, &m)))?.map(|_| i)
            }
            Err(e) => return ctx.fail("create/no-filter-refused", format!("creating an item without a filter failed with {}", e)),
        }
    } else {
        created
    };
    let mut item = match created {
        Ok(i) => i,
        Err(_) => {
            ctx.class("filter_rejected_at_creation");
            return Ok(());
        }
    };
    ctx.class("filter_accepted");
    // exact oracle only where the property defines the outcome
    let exact = c.deadband_type == 0 || (c.deadband_type == 1 && deadband >= 0.0);
    let scale = if c.deadband_type == 1 && deadband > 0.0 { deadband } else { 1.0 };

    let mut x = 100.0f64;
    let mut status = StatusCode::Good;
    let mut ts = 1_000i64;
    let mut last_reported: Option<Seen> = None;
    let mut suppressed = 0;
    let mut reported_later = 0;
    let mut now = t0;

    let mut feed = |ctx: &Ctx, item: &mut MonitoredItemProbe, value: Variant, status: StatusCode, ts: i64, now: chrono::DateTime<chrono::Utc>| -> Result<bool, Failure> {
        let dt = DateTime::from(t0 + chrono::Duration::seconds(ts));
        with_space(|a| {
            if let Some(v) = a.find_variable_mut(probe_id()) {
                let _ = v.set_value_direct(value.clone(), status, &dt, &dt);
            }
        });
        ctx.guard(|| with_space(|a| item.tick(&now, a, true, false)))?;
        let got = ctx.guard(|| item.all_notifications())?.unwrap_or_default();
        if got.len() > 1 {
            return ctx.fail("reported-more-than-once", format!("one sample produced {} notifications", got.len()));
        }
        if let Some(Notification::MonitoredItemNotification(n)) = got.first() {
            if n.value.value.as_ref() != Some(&value) {
                return ctx.fail("reported-wrong-value", format!("sampled {:?}, reported {:?}", value, n.value.value));
            }
        }
        Ok(!got.is_empty())
    };

    for (i, s) in c.samples.iter().enumerate() {
        now = now + chrono::Duration::seconds(1);
        let step = STEPS[s.step as usize % STEPS.len()] * scale;
        x += step;
        if s.status != 0 {
            status = STATUSES[s.status as usize % STATUSES.len()];
        }
        if s.new_timestamp {
            ts += 1;
        }
        let value = make_value(c.kind, x, i);
        let reported = feed(ctx, &mut item, value.clone(), status, ts, now)?;
        let seen = Seen { value: value.clone(), status, ts };
        let desc = |what: &str| format!("sample {} ({:?}, {}, t{}) with trigger {:?}, deadband type {} value {}: {}; last reported {:?}", i, value, status, ts, trigger, c.deadband_type, deadband, what, last_reported);
        match &last_reported {
            None => {
                if !reported {
                    return ctx.fail("first-sample-not-reported", desc("the first sample was not reported"));
                }
                last_reported = Some(seen);
            }
            Some(last) => {
                let status_differs = last.status != status;
                let ts_differs = last.ts != ts;
                let value_differs_plain = last.value != value;
                // does the value differ "in the way the filter describes"?
                let value_differs: Option<bool> = if c.deadband_type == 0 {
                    Some(value_differs_plain)
                } else if c.deadband_type == 1 && deadband >= 0.0 {
                    match (num(&last.value), num(&value)) {
                        (Some(a), Some(b)) => Some((a - b).abs() > deadband),
                        // a deadband on a non-numeric value: only "identical is not a change of value by the deadband rule" is not claimed
                        _ => None,
                    }
                } else {
                    None
                };
                let expected: Option<bool> = match trigger {
                    DataChangeTrigger::Status => Some(status_differs),
                    DataChangeTrigger::StatusValue => match value_differs {
                        Some(v) => Some(status_differs || v),
                        None => {
                            if status_differs {
                                Some(true)
                            } else {
                                None
                            }
                        }
                    },
                    DataChangeTrigger::StatusValueTimestamp => match value_differs {
                        Some(v) => Some(status_differs || v || ts_differs),
                        None => {
                            if status_differs || ts_differs {
                                Some(true)
                            } else {
                                None
                            }
                        }
                    },
                };
                if let Some(e) = expected {
                    if exact || e {
                        if e && !reported {
                            return ctx.fail(if status_differs { "change-not-reported/status" } else if ts_differs && trigger == DataChangeTrigger::StatusValueTimestamp && value_differs != Some(true) { "change-not-reported/timestamp" } else { "change-not-reported/value" }, desc("differs in the way the trigger selects but was not reported"));
                        }
                        if !e && reported && exact {
                            return ctx.fail("no-change-reported", desc("does not differ in the way the trigger selects but was reported"));
                        }
                    }
                }
                if reported {
                    if suppressed > 0 {
                        reported_later += 1;
                    }
                    last_reported = Some(seen);
                } else {
                    suppressed += 1;
                }
            }
        }
    }
    // an accepted filter must be able to report: a later sample that differs hugely in value (same status) has to come
    // out under the value triggers, and one that differs in status under every trigger
    now = now + chrono::Duration::seconds(1);
    if trigger != DataChangeTrigger::Status && num(&make_value(c.kind, x, 0)).is_some() && c.kind % 7 != 5 && c.kind % 7 != 2 {
        x += 1.0e7;
        let value = make_value(c.kind, x, 99);
        let reported = feed(ctx, &mut item, value.clone(), status, ts, now)?;
        ctx.class("huge_value_change_probe");
        if !reported {
            return ctx.fail(
                "accepted-filter-never-reports",
                format!("filter (trigger {:?}, deadband type {}, deadband value {}) was accepted, but a value change of 1e7 (to {:?}, same status) is not reported", trigger, c.deadband_type, deadband, value),
            );
        }
    }
    now = now + chrono::Duration::seconds(1);
    let other = if status == StatusCode::BadSensorFailure { StatusCode::Good } else { StatusCode::BadSensorFailure };
    let value = make_value(c.kind, x, 98);
    if !feed(ctx, &mut item, value, other, ts + 5, now)? {
        return ctx.fail("accepted-filter-never-reports/status", format!("filter (trigger {:?}, deadband type {}, value {}) accepted, a status change is not reported", trigger, c.deadband_type, deadband));
    }
    if suppressed > 0 && reported_later > 0 {
        ctx.nontrivial();
    }
    Ok(())
}

pub fn def() -> PropDef {
    PropDef {
        id: "C25",
        rule: "a data change filter (3 triggers x deadband type None / Absolute / Percent / undefined 3, 7 x deadband value 0, 0.5, 1, 2.5, 10, -1, NaN) on one real MonitoredItem created with TimestampsToReturn Both / Source / Server / Neither (the filter given at creation, or installed afterwards with a modify request), fed 1..25 samples of one value kind (Int32, Double, Byte, Float, String, Boolean, UInt64) whose value moves by 0, 1/4, 1/2, 1, 3/2, 2, 5/2, 10, 11, -1 deadbands, whose status switches among four codes and whose timestamps (source and server together) change or stay; reference: reported iff first, or status differs from the last reported sample, or (value triggers) the value differs / moved by more than the absolute deadband, or (timestamp trigger) the timestamp differs; then a probe: a value change of 1e7 and a status change must be reported by every accepted filter; non-trivial = at least one suppressed sample followed by a reported one; distinct = distinct case",
        assumptions: &[
            "acceptance is what CreateMonitoredItems does: MonitoredItem::new followed by validate_filter",
            "the exact two-sided oracle is applied for deadband None and for Absolute with a non-negative finite value on numeric values; for non-numeric values under a deadband, and for any other accepted filter, only 'differs => reported' and the can-report probe are asserted",
            "source and server timestamps change together (the property does not say which one the timestamp trigger looks at)",
        ],
        abort_possible: false,
        parts: |tier| vec![part("filter_history", tier.pick(3000, 6_000_000), case(), run)],
    }
}

//! C41 — Saved configurations load back unchanged.
use crate::engine::*;
use crate::fixtures;
use opcua::client::{ClientBuilder, ClientConfig, ClientEndpoint, ClientUserToken};
use opcua::core::config::Config;
use opcua::server::prelude::*;
use proptest::prelude::*;
use serde::{Deserialize, Serialize};
use std::collections::BTreeMap;
use std::path::PathBuf;
use std::time::Duration;

/// strings a YAML writer has to quote or escape to get them back as the same string
const HOSTILE: &[&str] = &[
    "", " ", " lead", "trail ", "a: b", "a #b", "- item", "? key", "~", "null", "Null", "true", "False", "yes", "no", "on", "off", "1e3", "0x1F", "0o17", "1_000", ".inf", "-.INF", ".nan", "123", "-0", "+1", "1.0", "'single'", "\"double\"",
    "a'b\"c", "line\nbreak", "tab\tin", "cr\rlf", "back\\slash", "{brace}", "[bracket]", "a, b", "&anchor", "*alias", "!tag", "|", ">", "%percent", "@at", "`tick`", "\u{85}nel", "\u{2028}ls", "\u{2029}ps", "\u{feff}bom", "é€語𝄞", "\u{0}nul", "\u{7f}del",
    "trail\n", "two\n\n", "\nlead", "a\nb ", "\n", " \n ", "x\r\n", "end\t", "\ttab", "a\n\nb\n", "keep\n ", "2001-12-14", "12:30:45", "<<", "=", "key:", ":colon", "#hash", "a\u{a0}b", "very long long long long long long long long long long long long long long long long long long long long long",
];

fn hostile() -> impl Strategy<Value = String> {
    prop_oneof![
        6 => prop::sample::select(HOSTILE.to_vec()).prop_map(|s| s.to_string()),
        2 => (prop::sample::select(HOSTILE.to_vec()), prop::sample::select(HOSTILE.to_vec())).prop_map(|(a, b)| format!("{}{}", a, b)),
        2 => "[ -~]{0,12}",
        1 => any::<String>().prop_map(|s| s.chars().take(12).collect()),
    ]
}

fn nonempty() -> impl Strategy<Value = String> {
    hostile().prop_map(|s| if s.is_empty() { "x".to_string() } else { s })
}

fn usize_edge() -> impl Strategy<Value = usize> {
    prop_oneof![prop::sample::select(vec![1usize, 2, 255, 256, 65535, 65536, u32::MAX as usize, u32::MAX as usize + 1, i64::MAX as usize, usize::MAX]), 1usize..100000]
}

fn finite_f64() -> impl Strategy<Value = f64> {
    prop_oneof![prop::sample::select(vec![0.0f64, -0.0, 0.1, 1.0, 1e-300, 5e-324, 1e300, f64::MAX, f64::MIN, f64::MIN_POSITIVE, 0.30000000000000004, 123456789.123456789]), -1e6f64..1e6]
}

#[derive(Clone, Debug, Serialize, Deserialize, PartialEq)]
pub struct ServerCase {
    pub strings: Vec<String>,
    pub numbers: Vec<usize>,
    pub floats: Vec<f64>,
    pub flags: Vec<bool>,
    /// user tokens: (id, user, password or certificate path)
    pub users: Vec<(String, String, Option<String>, String)>,
    /// endpoints: (id, path, security selector, password policy selector, user selector)
    pub endpoints: Vec<(String, String, u8, u8, u8)>,
    pub locales: Vec<String>,
    pub discovery: Vec<String>,
    /// this many further locale ids of 40 characters each: a configuration file of tens or hundreds of kilobytes
    #[serde(default)]
    pub bulk: u16,
}

fn server_case() -> impl Strategy<Value = ServerCase> {
    (
        prop::collection::vec(hostile(), 8),
        prop::collection::vec(usize_edge(), 12),
        prop::collection::vec(finite_f64(), 2),
        prop::collection::vec(any::<bool>(), 5),
        prop::collection::vec((nonempty(), nonempty(), proptest::option::of(hostile()), nonempty()), 0..4),
        prop::collection::vec((nonempty(), hostile(), 0u8..11, 0u8..5, any::<u8>()), 1..4),
        prop::collection::vec(hostile(), 0..3),
        prop::collection::vec(hostile(), 1..3),
        prop_oneof![12 => Just(0u16), 1 => 200u16..4000],
    )
        .prop_map(|(strings, numbers, floats, flags, users, endpoints, locales, discovery, bulk)| ServerCase { strings, numbers, floats, flags, users, endpoints, locales, discovery, bulk })
}

fn has_yaml_hostile(s: &str) -> bool {
    HOSTILE.iter().any(|h| !h.is_empty() && s.contains(h))
}

fn server_roundtrip(ctx: &Ctx, c: &ServerCase) -> PResult {
    let mut user_tokens: BTreeMap<String, ServerUserToken> = BTreeMap::new();
    for (id, user, pass, cert) in &c.users {
        if id == ANONYMOUS_USER_TOKEN_ID {
            continue;
        }
        let t = match pass {
            Some(p) => ServerUserToken { user: user.clone(), pass: Some(p.clone()), x509: None, thumbprint: None },
            None => ServerUserToken { user: user.clone(), pass: None, x509: Some(cert.clone()), thumbprint: None },
        };
        user_tokens.insert(id.clone(), t);
    }
    let ids: Vec<String> = user_tokens.keys().cloned().collect();
    let mut endpoints: BTreeMap<String, ServerEndpoint> = BTreeMap::new();
    for (id, path, sec, pp, us) in &c.endpoints {
        let (policy, mode) = fixtures::policy_mode(*sec as usize);
        let mut users: Vec<String> = Vec::new();
        if us & 1 != 0 || ids.is_empty() {
            users.push(ANONYMOUS_USER_TOKEN_ID.to_string());
        }
        for (k, uid) in ids.iter().enumerate() {
            if us & (2 << k) != 0 {
                users.push(uid.clone());
            }
        }
        let mut ep = ServerEndpoint::new(path.as_str(), policy, mode, &users);
        ep.password_security_policy = [None, Some("None"), Some("Basic128Rsa15"), Some("Basic256"), Some("Basic256Sha256")][*pp as usize % 5].map(|s| s.to_string());
        ep.security_level = *us;
        endpoints.insert(id.clone(), ep);
    }
    let default_endpoint = if c.flags[4] { endpoints.keys().next().cloned() } else { None };
    let config = ServerConfig {
        application_name: c.strings[0].clone(),
        application_uri: c.strings[1].clone(),
        product_uri: c.strings[2].clone(),
        create_sample_keypair: c.flags[0],
        certificate_path: if c.flags[1] { Some(PathBuf::from(&c.strings[3])) } else { None },
        private_key_path: if c.flags[2] { Some(PathBuf::from(&c.strings[4])) } else { None },
        certificate_validation: CertificateValidation { trust_client_certs: c.flags[3], check_time: c.flags[0] },
        pki_dir: PathBuf::from(&c.strings[5]),
        discovery_server_url: if c.flags[2] { Some(c.strings[6].clone()) } else { None },
        tcp_config: TcpConfig { hello_timeout: c.numbers[0] as u32, host: c.strings[7].clone(), port: c.numbers[1] as u16 },
        limits: opcua::server::config::Limits {
            clients_can_modify_address_space: c.flags[1],
            max_subscriptions: c.numbers[2],
            max_monitored_items_per_sub: c.numbers[3],
            max_monitored_item_queue_size: c.numbers[4],
            max_array_length: c.numbers[5],
            max_string_length: c.numbers[6],
            max_byte_string_length: c.numbers[7],
            min_sampling_interval: c.floats[0],
            min_publishing_interval: c.floats[1],
            max_message_size: c.numbers[8],
            max_chunk_count: c.numbers[9],
            send_buffer_size: c.numbers[10],
            receive_buffer_size: c.numbers[11],
        },
        performance: opcua::server::config::Performance { single_threaded_executor: c.flags[3] },
        locale_ids: c.locales.iter().cloned().chain((0..c.bulk).map(|i| format!("locale-{:05}-{}", i, "x".repeat(27)))).collect(),
        user_tokens,
        discovery_urls: c.discovery.clone(),
        default_endpoint,
        endpoints,
    };
    let valid = ctx.guard(|| config.is_valid())?;
    if !valid {
        ctx.excluded();
        ctx.class("generated_configuration_not_valid");
        return Ok(());
    }
    if c.strings.iter().chain(c.locales.iter()).chain(c.discovery.iter()).any(|s| has_yaml_hostile(s)) {
        ctx.nontrivial();
    }
    let path = fixtures::scratch_dir("c41").join(format!("server-{}.conf", std::process::id()));
    if ctx.guard(|| config.save(&path))?.is_err() {
        return ctx.fail("server/save-failed", format!("saving a valid configuration failed: {:?}", config));
    }
    let loaded: Result<ServerConfig, ()> = ctx.guard(|| ServerConfig::load(&path))?;
    match loaded {
        Err(()) => {
            let text = std::fs::read_to_string(&path).unwrap_or_default();
            ctx.fail("server/load-failed", format!("the saved file does not load; configuration {:?}; file:\n{}", config, text.chars().take(1500).collect::<String>()))
        }
        Ok(l) => {
            if l != config {
                return ctx.fail("server/differs", format!("loaded configuration differs: saved {:?}\nloaded {:?}", config, l));
            }
            if !l.is_valid() {
                return ctx.fail("server/loaded-not-valid", format!("{:?}", l));
            }
            Ok(())
        }
    }
}

#[derive(Clone, Debug, Serialize, Deserialize, PartialEq)]
pub struct ClientCase {
    pub strings: Vec<String>,
    pub numbers: Vec<usize>,
    pub durations_ms: Vec<u64>,
    pub flags: Vec<bool>,
    pub retry_limit: i32,
    pub users: Vec<(String, String, Option<String>, String, String)>,
    pub endpoints: Vec<(String, String, u8, u8)>,
    pub locales: Vec<String>,
}

fn client_case() -> impl Strategy<Value = ClientCase> {
    (
        prop::collection::vec(nonempty(), 7),
        prop::collection::vec(usize_edge(), 9),
        prop::collection::vec(prop_oneof![prop::sample::select(vec![0u64, 1, 999, 1000, 60_000, u32::MAX as u64, u64::MAX / 1000]), 0u64..100_000], 6),
        prop::collection::vec(any::<bool>(), 5),
        prop_oneof![Just(-1i32), Just(0), Just(1), Just(i32::MAX), -1i32..100],
        prop::collection::vec((nonempty(), nonempty(), proptest::option::of(hostile()), nonempty(), nonempty()), 0..3),
        prop::collection::vec((nonempty(), hostile(), 0u8..11, any::<u8>()), 1..4),
        prop::collection::vec(hostile(), 0..3),
    )
        .prop_map(|(strings, numbers, durations_ms, flags, retry_limit, users, endpoints, locales)| ClientCase { strings, numbers, durations_ms, flags, retry_limit, users, endpoints, locales })
}

fn client_roundtrip(ctx: &Ctx, c: &ClientCase) -> PResult {
    let mut b = ClientBuilder::new()
        .application_name(c.strings[0].clone())
        .application_uri(c.strings[1].clone())
        .product_uri(c.strings[2].clone())
        .create_sample_keypair(c.flags[0])
        .trust_server_certs(c.flags[1])
        .verify_server_certs(c.flags[2])
        .pki_dir(c.strings[3].clone())
        .preferred_locales(c.locales.clone())
        .max_message_size(c.numbers[0])
        .max_chunk_count(c.numbers[1])
        .max_chunk_size(c.numbers[2])
        .max_incoming_chunk_size(c.numbers[3])
        .max_string_length(c.numbers[4])
        .max_byte_string_length(c.numbers[5])
        .max_array_length(c.numbers[6])
        .recreate_monitored_items_chunk(c.numbers[7])
        .max_inflight_messages(c.numbers[8])
        .session_retry_limit(c.retry_limit.max(-1))
        .session_retry_initial(Duration::from_millis(c.durations_ms[0]))
        .session_retry_max(Duration::from_millis(c.durations_ms[1]))
        .keep_alive_interval(Duration::from_millis(c.durations_ms[2]))
        .request_timeout(Duration::from_millis(c.durations_ms[3]))
        .publish_timeout(Duration::from_millis(c.durations_ms[4]))
        .min_publish_interval(Duration::from_millis(c.durations_ms[5]))
        .session_name(c.strings[4].clone());
    if c.flags[3] {
        b = b.certificate_path(c.strings[5].clone()).private_key_path(c.strings[6].clone());
    }
    if c.flags[4] {
        b = b.ignore_clock_skew();
    }
    let mut ids: Vec<String> = Vec::new();
    for (id, user, pass, cert, key) in &c.users {
        if id == "ANONYMOUS" || id == "anonymous" || ids.contains(id) {
            continue;
        }
        let t = match pass {
            Some(p) => ClientUserToken::user_pass(user.clone(), p.clone()),
            None => ClientUserToken { user: user.clone(), password: None, cert_path: Some(cert.clone()), private_key_path: Some(key.clone()) },
        };
        b = b.user_token(id.clone(), t);
        ids.push(id.clone());
    }
    let mut first: Option<String> = None;
    for (id, url, sec, us) in &c.endpoints {
        let (policy, mode) = fixtures::policy_mode(*sec as usize);
        let mut e = ClientEndpoint::new(url.clone());
        e.security_policy = policy.to_str().to_string();
        e.security_mode = mode.into();
        if !ids.is_empty() && us % 2 == 1 {
            e.user_token_id = ids[*us as usize % ids.len()].clone();
        }
        if first.is_none() {
            first = Some(id.clone());
        }
        b = b.endpoint(id.clone(), e);
    }
    if let Some(f) = first {
        b = b.default_endpoint(f);
    }
    let config: ClientConfig = b.config();
    let valid = ctx.guard(|| config.is_valid())?;
    if !valid {
        ctx.excluded();
        ctx.class("generated_configuration_not_valid");
        return Ok(());
    }
    if c.strings.iter().chain(c.locales.iter()).any(|s| has_yaml_hostile(s)) {
        ctx.nontrivial();
    }
    let path = fixtures::scratch_dir("c41").join(format!("client-{}.conf", std::process::id()));
    if ctx.guard(|| config.save(&path))?.is_err() {
        return ctx.fail("client/save-failed", format!("saving a valid configuration failed: {:?}", config));
    }
    let loaded: Result<ClientConfig, ()> = ctx.guard(|| ClientConfig::load(&path))?;
    match loaded {
        Err(()) => {
            let text = std::fs::read_to_string(&path).unwrap_or_default();
            ctx.fail("client/load-failed", format!("the saved file does not load; configuration {:?}; file:\n{}", config, text.chars().take(1500).collect::<String>()))
        }
        Ok(l) => {
            if l != config {
                return ctx.fail("client/differs", format!("loaded configuration differs: saved {:?}\nloaded {:?}", config, l));
            }
            if !l.is_valid() {
                return ctx.fail("client/loaded-not-valid", format!("{:?}", l));
            }
            Ok(())
        }
    }
}

pub fn def() -> PropDef {
    PropDef {
        id: "C41",
        rule: "ServerConfig (public fields, built directly) and ClientConfig (through ClientBuilder) with strings from a YAML-hostile set (empty, leading/trailing space, ': ', ' #', '- ', quotes, newline, tab, CR, backslash, ~, null, true/yes/on, 1e3, 0x1F, .inf, .nan, dates, anchors, tags, NEL/LS/PS/BOM/NUL, non-BMP) and their concatenations, printable ASCII and arbitrary Unicode; endpoint and user-token maps with 0..3 entries and hostile keys; limits over the usize edge set; finite floats incl. -0, subnormal and MAX; durations; optional paths; only configurations for which is_valid() holds are judged (the others are counted as excluded); oracle: save is Ok, load is Ok and equal (derived PartialEq), loaded.is_valid(); non-trivial = at least one string that YAML would type as a non-string or that needs quoting; distinct = distinct case; one server configuration in thirteen is padded to tens or hundreds of kilobytes",
        assumptions: &["floats are finite (NaN is not equal to itself under the derived PartialEq)", "equality is the crates' derived PartialEq"],
        abort_possible: false,
        parts: |tier| vec![part("server_config", tier.pick(1000, 250_000), server_case(), server_roundtrip), part("client_config", tier.pick(800, 200_000), client_case(), client_roundtrip)],
    }
}

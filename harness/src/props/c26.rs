//! C26 — Client timestamps and wall-clock jumps cannot crash subscription processing.
use crate::engine::*;
use crate::subs::{classify, Delivered, SubFix};
use opcua::server::prelude::*;
use proptest::prelude::*;
use serde::{Deserialize, Serialize};
use std::collections::BTreeMap;
use std::io::Cursor;

#[derive(Clone, Debug, Serialize, Deserialize, PartialEq)]
pub enum Op {
    /// publishing interval selector
    CreateSub(u8),
    /// subscription index, variable, sampling interval selector (-1, 0, 100, 250 ms)
    CreateItem(u8, u8, u8),
    Write(u8),
    /// clock step selector (may be negative)
    Tick(u8),
    /// timestamp selector, timeout hint selector
    Publish(u8, u8),
    DeleteSub(u8),
    /// clock step below a millisecond, in nanoseconds (may be negative): the server's clock is not a millisecond clock
    TickFine(u8),
}

const STEPS_NS: [i64; 10] = [-999_999, -999_000, -400_000, -100, -1, 1, 100, 500_000, 999_999, 0];

const STEPS_MS: [i64; 11] = [-86_400_000, -40_000, -1_000, -1, 0, 1, 100, 1_000, 31_000, 86_400_000, 250];
const HINTS: [u32; 8] = [0, 1, 999, 1000, 29_999, 30_000, 30_001, u32::MAX];
const PUBLISH_REQUEST_TIMEOUT_MS: i64 = 30_000;

fn op() -> impl Strategy<Value = Op> {
    prop_oneof![
        2 => (0u8..3).prop_map(Op::CreateSub),
        3 => (0u8..3, 0u8..4, 0u8..4).prop_map(|(s, v, i)| Op::CreateItem(s, v, i)),
        4 => (0u8..4).prop_map(Op::Write),
        8 => (0u8..STEPS_MS.len() as u8).prop_map(Op::Tick),
        4 => (0u8..STEPS_NS.len() as u8).prop_map(Op::TickFine),
        8 => (0u8..12, 0u8..HINTS.len() as u8).prop_map(|(t, h)| Op::Publish(t, h)),
        1 => (0u8..3).prop_map(Op::DeleteSub),
    ]
}

fn history() -> impl Strategy<Value = Vec<Op>> {
    prop::collection::vec(op(), 1..50).prop_map(|mut ops| {
        ops.insert(0, Op::CreateItem(0, 0, 0));
        ops.insert(0, Op::CreateSub(0));
        ops
    })
}

/// a DateTime as the decoder produces it from the ticks a client put on the wire
fn wire_time(ticks: i64) -> DateTime {
    let bytes = ticks.to_le_bytes();
    DateTime::decode(&mut Cursor::new(&bytes[..]), &DecodingOptions::default()).unwrap_or_else(|_| DateTime::null())
}

fn timestamp(kind: u8, now: chrono::DateTime<chrono::Utc>) -> DateTime {
    let d = |ms: i64| DateTime::from(now + chrono::Duration::milliseconds(ms));
    match kind % 12 {
        0 => DateTime::null(),
        1 => wire_time(0),
        2 => wire_time(1),
        3 => wire_time(-1),
        4 => wire_time(i64::MAX),
        5 => wire_time(i64::MIN),
        6 => DateTime::endtimes(),
        7 => d(-40_000),
        8 => d(-1),
        9 => d(0),
        10 => d(1_000),
        _ => d(86_400_000 * 400),
    }
}

fn run(ctx: &Ctx, ops: &Vec<Op>) -> PResult {
    let mut fx = SubFix::new();
    let mut subs: Vec<u32> = Vec::new();
    let mut handle = 300u32;
    // queued publish requests: id -> (timestamp, timeout in ms)
    let mut queued: BTreeMap<u32, (chrono::DateTime<chrono::Utc>, i64)> = BTreeMap::new();
    let mut counter = (0..crate::subs::N_VARS).map(|v| fx.read(v)).max().unwrap_or(0).wrapping_add(1);
    let mut high_water = fx.now;
    let mut went_back = false;

    let mut absorb = |ctx: &Ctx, queued: &mut BTreeMap<u32, (chrono::DateTime<chrono::Utc>, i64)>, now: chrono::DateTime<chrono::Utc>, step: usize, out: Vec<(u32, opcua::core::supported_message::SupportedMessage)>| -> PResult {
        for (rid, msg) in out {
            let entry = queued.remove(&rid);
            if let Delivered::Fault(StatusCode::BadTimeout) = classify(&msg) {
                let Some((ts, timeout)) = entry else {
                    return ctx.fail("timeout/unknown-request", format!("step {}: BadTimeout for request id {} which is not queued", step, rid));
                };
                ctx.class("publish_request_timed_out");
                // compared at full resolution, as the code does
                let elapsed_d = now.signed_duration_since(ts);
                let elapsed = elapsed_d.num_milliseconds();
                if elapsed_d <= chrono::Duration::milliseconds(timeout) {
                    return ctx.fail(
                        "timeout/too-early",
                        format!("step {}: publish request {} with timestamp {} and a timeout of {} ms was answered with BadTimeout at {} (only {} ms later)", step, rid, ts, timeout, now, elapsed),
                    );
                }
            }
        }
        Ok(())
    };

    for (i, op) in ops.iter().enumerate() {
        match op {
            Op::CreateSub(iv) => {
                if subs.len() >= 3 {
                    continue;
                }
                let interval = [100.0, 250.0, 1000.0][*iv as usize % 3];
                match ctx.guard(|| fx.create_sub(interval, 50, 3000, 0, true))? {
                    Ok((id, ..)) => subs.push(id),
                    Err(e) => return ctx.fail("setup/create-subscription", format!("{}", e)),
                }
            }
            Op::DeleteSub(k) => {
                if subs.len() <= 1 {
                    continue;
                }
                let id = subs.remove(*k as usize % subs.len());
                let _ = ctx.guard(|| fx.delete_sub(id))?;
            }
            Op::CreateItem(s, v, iv) => {
                if subs.is_empty() {
                    continue;
                }
                handle += 1;
                let sampling = [-1.0, 0.0, 100.0, 250.0][*iv as usize % 4];
                let sub = subs[*s as usize % subs.len()];
                if let Err(e) = ctx.guard(|| fx.create_item_with(sub, *v as usize, handle, 5, true, sampling))? {
                    return ctx.fail("setup/create-item", format!("{}", e));
                }
            }
            Op::Write(v) => {
                counter = counter.wrapping_add(1);
                fx.write(*v as usize, counter);
            }
            Op::Tick(d) => {
                let delta = STEPS_MS[*d as usize % STEPS_MS.len()];
                if delta < 0 {
                    went_back = true;
                    ctx.class("clock_moves_backwards");
                }
                let out = fx.tick(ctx, delta)?;
                if fx.now > high_water {
                    high_water = fx.now;
                }
                let now = fx.now;
                absorb(ctx, &mut queued, now, i, out)?;
            }
            Op::TickFine(d) => {
                let delta = STEPS_NS[*d as usize % STEPS_NS.len()];
                if delta < 0 {
                    went_back = true;
                    ctx.class("clock_moves_backwards_by_less_than_a_millisecond");
                }
                let out = fx.tick_by(ctx, chrono::Duration::nanoseconds(delta))?;
                if fx.now > high_water {
                    high_water = fx.now;
                }
                let now = fx.now;
                absorb(ctx, &mut queued, now, i, out)?;
            }
            Op::Publish(t, h) => {
                let ts = timestamp(*t, fx.now);
                let hint = HINTS[*h as usize % HINTS.len()];
                let ts_chrono: chrono::DateTime<chrono::Utc> = ts.into();
                if ts_chrono > fx.now {
                    went_back = true;
                    ctx.class("request_timestamp_in_the_future");
                }
                let timeout = if hint > 0 && (hint as i64) < PUBLISH_REQUEST_TIMEOUT_MS { hint as i64 } else { PUBLISH_REQUEST_TIMEOUT_MS };
                let (rid, r, out) = fx.publish(ctx, &[], Some(ts), hint)?;
                if r.is_ok() {
                    queued.insert(rid, (ts_chrono, timeout));
                }
                let now = fx.now;
                absorb(ctx, &mut queued, now, i, out)?;
            }
        }
    }
    if went_back {
        ctx.nontrivial();
    }
    Ok(())
}

pub fn def() -> PropDef {
    PropDef {
        id: "C26",
        rule: "histories of up to 52 operations on one session (clock steps of -1 day .. +1 day and of -999999 .. +999999 ns; create/delete subscription, monitored items with sampling interval -1 / 0 / 100 / 250 ms, writes, publish requests whose header timestamp is null, tick 0, 1, -1, i64::MAX, i64::MIN as decoded from the wire, end of times, now-40 s, now-1 ms, now, now+1 s, now+400 days and whose timeout hint is 0, 1, 999, 1000, 29999, 30000, 30001, u32::MAX; timer ticks whose clock moves by -1 day, -40 s, -1 s, -1 ms, 0, +1 ms, +100 ms, +250 ms, +1 s, +31 s, +1 day); oracle: no panic in tick, expire and enqueue; a BadTimeout fault for a queued publish request only when more than min(hint, 30 s) (30 s for hint 0) passed between its timestamp and the tick time; non-trivial = the clock moved backwards or a request timestamp lay in the future; distinct = distinct history",
        assumptions: &["the publish request timeout is the crate's constant of 30 s, shortened by a smaller non-zero timeout hint (what the code documents)", "only the 'not before' direction of the timeout is asserted"],
        abort_possible: false,
        parts: |tier| vec![part("clock_history", tier.pick(1500, 40000), history(), run)],
    }
}

//! C23 — Revised subscription and monitored item parameters respect the limits.
use crate::engine::*;
use crate::srv::{self, Conn};
use opcua::core::supported_message::SupportedMessage;
use opcua::server::prelude::*;
use proptest::prelude::*;
use serde::{Deserialize, Serialize};

#[derive(Clone, Debug, Serialize, Deserialize, PartialEq)]
pub struct Limits {
    pub min_publishing_interval_ms: f64,
    pub min_sampling_interval_ms: f64,
    pub max_keep_alive_count: u32,
    pub default_keep_alive_count: u32,
    /// max_lifetime_count = 3 * max_keep_alive_count + extra
    pub lifetime_extra: u32,
    pub max_queue: u32,
}

#[derive(Clone, Debug, Serialize, Deserialize, PartialEq)]
pub struct Request {
    /// bit patterns so that NaN payloads survive the JSON replay file
    pub publishing_interval_bits: u64,
    pub keep_alive: u32,
    pub lifetime: u32,
    pub sampling_interval_bits: u64,
    pub queue_size: u32,
}

#[derive(Clone, Debug, Serialize, Deserialize, PartialEq)]
pub struct Case {
    pub limits: Limits,
    pub create: Request,
    pub modify: Request,
}

fn f64_edges() -> impl Strategy<Value = u64> {
    prop_oneof![
        Just(0.0f64), Just(-0.0), Just(-1.0), Just(-0.5), Just(-1e300), Just(1.0), Just(0.5), Just(50.0), Just(99.999), Just(100.0), Just(100.001), Just(1000.0),
        Just(1e300), Just(f64::MAX), Just(f64::MIN), Just(f64::MIN_POSITIVE), Just(5e-324), Just(f64::INFINITY), Just(f64::NEG_INFINITY), Just(f64::NAN), Just(-f64::NAN),
        (-2000.0f64..20000.0),
    ]
    .prop_map(|f| f.to_bits())
    .boxed()
    .prop_union(any::<u64>().boxed())
}

fn u32_edges() -> impl Strategy<Value = u32> {
    prop_oneof![4 => prop::sample::select(vec![0u32, 1, 2, 3, 9, 10, 11, 29, 30, 31, 100, 1000, 30000, 0x7fff_ffff, 0x8000_0000, u32::MAX - 1, u32::MAX]), 2 => 0u32..200, 1 => any::<u32>()]
}

fn limits() -> impl Strategy<Value = Limits> {
    (
        prop::sample::select(vec![0.0f64, 1.0, 50.0, 100.0, 1000.0, 60000.0]),
        prop::sample::select(vec![0.0f64, 1.0, 50.0, 100.0, 1000.0]),
        prop::sample::select(vec![1u32, 2, 10, 30000, 1_000_000]),
        0u32..4,
        prop::sample::select(vec![0u32, 1, 1000]),
        prop::sample::select(vec![1u32, 2, 10, 1000]),
    )
        .prop_map(|(p, s, k, dsel, extra, q)| Limits {
            min_publishing_interval_ms: p,
            min_sampling_interval_ms: s,
            max_keep_alive_count: k,
            // a default within 1..=max (a default above the maximum would be an inconsistent administrator configuration)
            default_keep_alive_count: [1, k, (k / 2).max(1), k.min(10)][dsel as usize],
            lifetime_extra: extra,
            max_queue: q,
        })
}

fn request() -> impl Strategy<Value = Request> {
    (f64_edges(), u32_edges(), u32_edges(), f64_edges(), u32_edges()).prop_map(|(p, k, l, s, q)| Request { publishing_interval_bits: p, keep_alive: k, lifetime: l, sampling_interval_bits: s, queue_size: q })
}

fn check_sub(ctx: &Ctx, what: &str, l: &Limits, req: &Request, interval: f64, keep_alive: u32, lifetime: u32) -> PResult {
    let desc = format!("{} requested (interval {:?}, keep-alive {}, lifetime {}) under {:?} -> revised (interval {:?}, keep-alive {}, lifetime {})", what, f64::from_bits(req.publishing_interval_bits), req.keep_alive, req.lifetime, l, interval, keep_alive, lifetime);
    if !(interval >= l.min_publishing_interval_ms) {
        return ctx.fail(format!("{}/publishing-interval-below-minimum", what), desc);
    }
    if keep_alive < 1 || keep_alive > l.max_keep_alive_count {
        return ctx.fail(format!("{}/keep-alive-out-of-range", what), desc);
    }
    if (lifetime as u64) < 3 * keep_alive as u64 {
        return ctx.fail(format!("{}/lifetime-below-3x-keep-alive", what), desc);
    }
    Ok(())
}

fn check_item(ctx: &Ctx, what: &str, l: &Limits, req: &Request, sampling: f64, queue: u32) -> PResult {
    let desc = format!("{} requested (sampling {:?}, queue {}) under {:?} -> revised (sampling {:?}, queue {})", what, f64::from_bits(req.sampling_interval_bits), req.queue_size, l, sampling, queue);
    if !(sampling == -1.0 || sampling >= l.min_sampling_interval_ms) {
        return ctx.fail(format!("{}/sampling-interval", what), desc);
    }
    if queue < 1 || queue > l.max_queue {
        return ctx.fail(format!("{}/queue-size", what), desc);
    }
    Ok(())
}

struct Restore {
    server: std::sync::Arc<Server>,
    saved: (f64, f64, u32, u32, u32, usize),
}

impl Drop for Restore {
    fn drop(&mut self) {
        let st = self.server.server_state();
        let mut st = st.write();
        st.min_publishing_interval_ms = self.saved.0;
        st.min_sampling_interval_ms = self.saved.1;
        st.max_keep_alive_count = self.saved.2;
        st.default_keep_alive_count = self.saved.3;
        st.max_lifetime_count = self.saved.4;
        st.max_monitored_item_queue_size = self.saved.5;
    }
}

fn run(ctx: &Ctx, case: &Case) -> PResult {
    let server = srv::worker_server(false);
    let l = &case.limits;
    let _restore = {
        let st = server.server_state();
        let mut st = st.write();
        let saved = (st.min_publishing_interval_ms, st.min_sampling_interval_ms, st.max_keep_alive_count, st.default_keep_alive_count, st.max_lifetime_count, st.max_monitored_item_queue_size);
        st.min_publishing_interval_ms = l.min_publishing_interval_ms;
        st.min_sampling_interval_ms = l.min_sampling_interval_ms;
        st.max_keep_alive_count = l.max_keep_alive_count;
        st.default_keep_alive_count = l.default_keep_alive_count;
        st.max_lifetime_count = l.max_keep_alive_count * 3 + l.lifetime_extra;
        st.max_monitored_item_queue_size = l.max_queue as usize;
        Restore { server: server.clone(), saved }
    };
    let mut conn = Conn::open(server.clone());
    let token = conn.session();
    let outside = |r: &Request| {
        let p = f64::from_bits(r.publishing_interval_bits);
        let s = f64::from_bits(r.sampling_interval_bits);
        !p.is_finite() || !s.is_finite() || p < l.min_publishing_interval_ms || (s >= 0.0 && s < l.min_sampling_interval_ms) || r.keep_alive == 0 || r.keep_alive > l.max_keep_alive_count || r.queue_size == 0 || r.queue_size > l.max_queue || (r.lifetime as u64) < 3 * r.keep_alive as u64
    };
    if outside(&case.create) || outside(&case.modify) {
        ctx.nontrivial();
    }
    for r in [&case.create, &case.modify] {
        if f64::from_bits(r.publishing_interval_bits).is_nan() {
            ctx.class("nan_publishing_interval");
        }
        if f64::from_bits(r.sampling_interval_bits).is_nan() {
            ctx.class("nan_sampling_interval");
        }
        if f64::from_bits(r.sampling_interval_bits).is_infinite() {
            ctx.class("infinite_sampling_interval");
        }
    }

    // CreateSubscription
    let h = conn.header(&token);
    let c = &case.create;
    let r = ctx.guard(|| {
        conn.call(CreateSubscriptionRequest {
            request_header: h,
            requested_publishing_interval: f64::from_bits(c.publishing_interval_bits),
            requested_lifetime_count: c.lifetime,
            requested_max_keep_alive_count: c.keep_alive,
            max_notifications_per_publish: 0,
            publishing_enabled: true,
            priority: 0,
        })
    })?;
    let sub_id = match r {
        SupportedMessage::CreateSubscriptionResponse(r) => {
            check_sub(ctx, "create-subscription", l, c, r.revised_publishing_interval, r.revised_max_keep_alive_count, r.revised_lifetime_count)?;
            r.subscription_id
        }
        other => return ctx.fail("create-subscription/refused", format!("{:?}", srv::status_of(&other))),
    };
    // ModifySubscription
    let h = conn.header(&token);
    let m = &case.modify;
    let r = ctx.guard(|| {
        conn.call(ModifySubscriptionRequest {
            request_header: h,
            subscription_id: sub_id,
            requested_publishing_interval: f64::from_bits(m.publishing_interval_bits),
            requested_lifetime_count: m.lifetime,
            requested_max_keep_alive_count: m.keep_alive,
            max_notifications_per_publish: 0,
            priority: 0,
        })
    })?;
    match r {
        SupportedMessage::ModifySubscriptionResponse(r) => check_sub(ctx, "modify-subscription", l, m, r.revised_publishing_interval, r.revised_max_keep_alive_count, r.revised_lifetime_count)?,
        other => return ctx.fail("modify-subscription/refused", format!("{:?}", srv::status_of(&other))),
    }
    // CreateMonitoredItems
    let h = conn.header(&token);
    let item = |r: &Request| MonitoringParameters { client_handle: 1, sampling_interval: f64::from_bits(r.sampling_interval_bits), filter: ExtensionObject::null(), queue_size: r.queue_size, discard_oldest: true };
    let r = ctx.guard(|| {
        conn.call(CreateMonitoredItemsRequest {
            request_header: h,
            subscription_id: sub_id,
            timestamps_to_return: TimestampsToReturn::Both,
            items_to_create: Some(vec![MonitoredItemCreateRequest {
                item_to_monitor: ReadValueId { node_id: VariableId::Server_ServerStatus_CurrentTime.into(), attribute_id: AttributeId::Value as u32, index_range: UAString::null(), data_encoding: QualifiedName::null() },
                monitoring_mode: MonitoringMode::Reporting,
                requested_parameters: item(c),
            }]),
        })
    })?;
    let item_id = match r {
        SupportedMessage::CreateMonitoredItemsResponse(r) => {
            let res = r.results.unwrap_or_default();
            let Some(res) = res.first() else { return ctx.fail("create-item/no-result", "") };
            if res.status_code.is_bad() {
                return ctx.fail("create-item/refused", format!("{}", res.status_code));
            }
            check_item(ctx, "create-item", l, c, res.revised_sampling_interval, res.revised_queue_size)?;
            res.monitored_item_id
        }
        other => return ctx.fail("create-item/refused", format!("{:?}", srv::status_of(&other))),
    };
    // ModifyMonitoredItems
    let h = conn.header(&token);
    let r = ctx.guard(|| {
        conn.call(ModifyMonitoredItemsRequest {
            request_header: h,
            subscription_id: sub_id,
            timestamps_to_return: TimestampsToReturn::Both,
            items_to_modify: Some(vec![MonitoredItemModifyRequest { monitored_item_id: item_id, requested_parameters: item(m) }]),
        })
    })?;
    match r {
        SupportedMessage::ModifyMonitoredItemsResponse(r) => {
            let res = r.results.unwrap_or_default();
            let Some(res) = res.first() else { return ctx.fail("modify-item/no-result", "") };
            if res.status_code.is_bad() {
                return ctx.fail("modify-item/refused", format!("{}", res.status_code));
            }
            check_item(ctx, "modify-item", l, m, res.revised_sampling_interval, res.revised_queue_size)?;
        }
        other => return ctx.fail("modify-item/refused", format!("{:?}", srv::status_of(&other))),
    }
    Ok(())
}

pub fn def() -> PropDef {
    PropDef {
        id: "C23",
        rule: "requested publishing/sampling intervals over the f64 edge set (0, -0, negatives, below/at/above the minimum, subnormal, 1e300, MAX, infinities, NaN of both signs, arbitrary bit patterns) and keep-alive/lifetime/queue sizes over the u32 edge set, under generated consistent server limits, through CreateSubscription, ModifySubscription, CreateMonitoredItems and ModifyMonitoredItems of the real dispatcher; the five inequalities of the property are evaluated on the revised values of the responses (NaN fails every comparison); non-trivial = at least one requested value outside the server's range or non-finite; distinct = distinct case",
        assumptions: &[
            "server limits are generated consistently (default keep-alive within 1..=max keep-alive, max lifetime >= 3 x max keep-alive, products below 2^32): an inconsistent administrator configuration is not a client input",
            "the limits are the public fields of ServerState, set per case and restored afterwards",
        ],
        abort_possible: false,
        parts: |tier| vec![part("revised_parameters", tier.pick(4000, 100000), (limits(), request(), request()).prop_map(|(limits, create, modify)| Case { limits, create, modify }), run)],
    }
}

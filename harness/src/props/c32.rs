//! C32 — Attribute reads and writes obey access rights and never crash.
use crate::engine::*;
use crate::srv::{self, Conn};
use opcua::core::supported_message::SupportedMessage;
use opcua::server::prelude::*;
use proptest::prelude::*;
use serde::{Deserialize, Serialize};
use std::cell::Cell;

/// value kinds: 0 Int32, 1 Double, 2 String, 3 ByteString, 4 Boolean, 5 Int32 array, 6 String array, 7 Byte array, 9 Byte (8 = Empty, written values only)
#[derive(Clone, Debug, Serialize, Deserialize, PartialEq)]
pub struct Var {
    pub kind: u8,
    pub seed: u16,
    pub access_level: u8,
    pub user_access_level: u8,
}

#[derive(Clone, Debug, Serialize, Deserialize, PartialEq)]
pub enum Op {
    /// variable, attribute id, index range selector, range numbers
    Read(u8, u8, u8, u8, u8),
    /// variable, attribute id (mostly 13 = Value), index range selector, range numbers, value kind, value seed
    Write(u8, u8, u8, u8, u8, u8, u16),
}

#[derive(Clone, Debug, Serialize, Deserialize, PartialEq)]
pub struct Case {
    pub vars: Vec<Var>,
    pub ops: Vec<Op>,
}

const CHARS: [&str; 8] = ["a", "Z", "0", "é", "ß", "€", "語", "𝄞"];

fn make_string(seed: u16, ascii: bool) -> String {
    let n = (seed % 7) as usize;
    (0..n).map(|i| CHARS[if ascii { (seed as usize + i) % 3 } else { (seed as usize / 7 + i * 3) % CHARS.len() }]).collect()
}

/// kinds 0..7 as listed (taken modulo 8, as older replay files rely on), 9 = scalar Byte
fn norm(kind: u8) -> u8 {
    if kind == 9 {
        9
    } else {
        kind % 8
    }
}

fn make_value(kind: u8, seed: u16) -> Variant {
    match norm(kind) {
        9 => Variant::Byte(seed as u8),
        0 => Variant::Int32(seed as i32 - 1000),
        1 => Variant::Double(seed as f64 / 8.0),
        2 => Variant::from(make_string(seed, seed % 3 == 0)),
        3 => Variant::from(ByteString::from((0..(seed % 9)).map(|i| (seed as u8).wrapping_add(i as u8)).collect::<Vec<u8>>())),
        4 => Variant::Boolean(seed % 2 == 0),
        5 => Variant::from((VariantTypeId::Int32, (0..(seed % 7)).map(|i| Variant::Int32(seed as i32 + i as i32)).collect::<Vec<_>>())),
        6 => Variant::from((VariantTypeId::String, (0..(seed % 5)).map(|i| Variant::from(make_string(seed.wrapping_add(i), false))).collect::<Vec<_>>())),
        _ => Variant::from((VariantTypeId::Byte, (0..(seed % 9)).map(|i| Variant::Byte((seed as u8).wrapping_add(i as u8))).collect::<Vec<_>>())),
    }
}

fn data_type(kind: u8) -> DataTypeId {
    match norm(kind) {
        0 | 5 => DataTypeId::Int32,
        1 => DataTypeId::Double,
        2 | 6 => DataTypeId::String,
        3 => DataTypeId::ByteString,
        4 => DataTypeId::Boolean,
        _ => DataTypeId::Byte,
    }
}

fn is_array_kind(kind: u8) -> bool {
    (5..=7).contains(&norm(kind))
}

fn range_string(sel: u8, a: u8, b: u8) -> Option<String> {
    let (lo, hi) = if a <= b { (a, b) } else { (b, a) };
    match sel % 10 {
        0 | 1 | 2 => None,
        3 => Some(format!("{}", a % 12)),
        4 | 5 => Some(format!("{}:{}", lo % 12, (lo % 12) as u16 + 1 + (hi % 6) as u16)),
        6 => Some(format!("{}:{}", a, a)),
        7 => Some(format!("{}:{}", hi as u16 + 1, lo)),
        8 => Some(["", ":", "1:", "x", "1,2", "-1", "4294967296", "1:2:3", " 1"][a as usize % 9].to_string()),
        _ => Some(format!("{},{}:{}", a % 4, lo % 4, (lo % 4) + 1)),
    }
}

fn var_strategy() -> impl Strategy<Value = Var> {
    (prop_oneof![8 => 0u8..8, 2 => Just(9u8)], any::<u16>(), prop_oneof![Just(3u8), Just(1u8), Just(2u8), Just(0u8), any::<u8>()], prop_oneof![3 => Just(3u8), 2 => Just(1u8), 1 => Just(2u8), 1 => Just(0u8), 1 => any::<u8>()]).prop_map(|(kind, seed, access_level, user_access_level)| Var { kind, seed, access_level, user_access_level })
}

fn op_strategy() -> impl Strategy<Value = Op> {
    prop_oneof![
        1 => (0u8..4, prop_oneof![6 => Just(13u8), 2 => 0u8..31], 0u8..10, any::<u8>(), any::<u8>()).prop_map(|(v, a, s, x, y)| Op::Read(v, a, s, x, y)),
        1 => (0u8..4, prop_oneof![8 => Just(13u8), 1 => 0u8..31], 0u8..10, any::<u8>(), any::<u8>(), 0u8..10, any::<u16>()).prop_map(|(v, a, s, x, y, k, sd)| Op::Write(v, a, s, x, y, k, sd)),
    ]
}

thread_local! {
    static CASE_NO: Cell<u64> = const { Cell::new(0) };
}

fn raw_value(server: &Server, id: &NodeId) -> DataValue {
    let a = server.address_space();
    let a = a.read();
    a.find_variable(id.clone()).map(|v| v.value(TimestampsToReturn::Both, NumericRange::None, &QualifiedName::null(), 0.0)).unwrap_or_default()
}

/// the part of `v` that range `r` denotes, when that is well defined (None = the code may answer with a Bad status)
fn model_range(v: &Variant, r: &NumericRange) -> Option<Result<Variant, ()>> {
    let (min, max) = match r {
        NumericRange::None => return Some(Ok(v.clone())),
        NumericRange::Index(i) => (*i as usize, *i as usize),
        NumericRange::Range(a, b) => (*a as usize, *b as usize),
        NumericRange::MultipleRanges(_) => return Some(Err(())),
    };
    match v {
        Variant::Array(arr) => {
            if min >= arr.values.len() {
                Some(Err(()))
            } else if matches!(r, NumericRange::Index(_)) {
                Some(Ok(Variant::from((arr.value_type, vec![arr.values[min].clone()]))))
            } else {
                let max = max.min(arr.values.len() - 1);
                Some(Ok(Variant::from((arr.value_type, arr.values[min..=max].to_vec()))))
            }
        }
        Variant::ByteString(b) => match &b.value {
            Some(bytes) if min < bytes.len() => Some(Ok(Variant::from(ByteString::from(bytes[min..=max.min(bytes.len() - 1)].to_vec())))),
            _ => Some(Err(())),
        },
        Variant::String(s) => match s.value() {
            Some(st) if min < st.len() => {
                let max = max.min(st.len() - 1);
                // defined on bytes only where both ends fall on character boundaries
                if st.is_char_boundary(min) && st.is_char_boundary(max + 1) {
                    Some(Ok(Variant::from(&st[min..=max])))
                } else {
                    None
                }
            }
            _ => Some(Err(())),
        },
        _ => Some(Err(())),
    }
}

fn run(ctx: &Ctx, c: &Case) -> PResult {
    let server = srv::worker_server(false);
    let mut conn = Conn::open(server.clone());
    let token = conn.session();
    let case_no = CASE_NO.with(|n| {
        n.set(n.get() + 1);
        n.get()
    });
    let id = |i: usize| NodeId::new(1, format!("c32-{}-{}-{}", std::process::id(), case_no, i));
    let nv = c.vars.len();
    // model: Some(value) when known
    let mut model: Vec<Option<Variant>> = Vec::new();
    {
        let a = server.address_space();
        let mut a = a.write();
        for (i, v) in c.vars.iter().enumerate() {
            let value = make_value(v.kind, v.seed);
            VariableBuilder::new(&id(i), format!("v{}", i).as_str(), "v")
                .data_type(data_type(v.kind))
                .value_rank(if is_array_kind(v.kind) { 1 } else { -1 })
                .value(value.clone())
                .access_level(AccessLevel::from_bits_truncate(v.access_level))
                .user_access_level(UserAccessLevel::from_bits_truncate(v.user_access_level))
                .organized_by(ObjectId::ObjectsFolder)
                .insert(&mut a);
            model.push(Some(value));
        }
    }
    let mut interesting = false;
    let verdict = (|| -> PResult {
        for (step, op) in c.ops.iter().enumerate() {
            match op {
                Op::Read(v, attr, sel, x, y) => {
                    let k = *v as usize % nv;
                    let var = &c.vars[k];
                    let range = range_string(*sel, *x, *y);
                    let h = conn.header(&token);
                    let req = ReadRequest {
                        request_header: h,
                        max_age: 0.0,
                        timestamps_to_return: TimestampsToReturn::Both,
                        nodes_to_read: Some(vec![ReadValueId { node_id: id(k), attribute_id: *attr as u32, index_range: range.as_ref().map(|s| UAString::from(s.as_str())).unwrap_or_else(UAString::null), data_encoding: QualifiedName::null() }]),
                    };
                    let r = ctx.guard(|| conn.call(req))?;
                    let dv = match r {
                        SupportedMessage::ReadResponse(r) => match r.results.and_then(|mut v| if v.is_empty() { None } else { Some(v.remove(0)) }) {
                            Some(dv) => dv,
                            None => return ctx.fail("read/no-result", format!("step {}", step)),
                        },
                        other => return ctx.fail("read/fault", format!("step {}: {:?}", step, srv::status_of(&other))),
                    };
                    if *attr != 13 {
                        continue;
                    }
                    let readable = UserAccessLevel::from_bits_truncate(var.user_access_level).contains(UserAccessLevel::CURRENT_READ);
                    let status = dv.status.unwrap_or(StatusCode::Good);
                    if !readable {
                        if status.is_good() && dv.value.is_some() {
                            return ctx.fail("read/unreadable-value-returned", format!("step {}: variable {} has user access level {:#x} but its value was returned", step, k, var.user_access_level));
                        }
                        continue;
                    }
                    let Some(current) = &model[k] else { continue };
                    let parsed: Result<NumericRange, ()> = match &range {
                        None => Ok(NumericRange::None),
                        Some(s) => s.parse::<NumericRange>().map_err(|_| ()),
                    };
                    let Ok(nr) = parsed else {
                        if status.is_good() {
                            return ctx.fail("read/invalid-range-accepted", format!("step {}: index range {:?} was answered Good", step, range));
                        }
                        continue;
                    };
                    if range.is_some() && (is_array_kind(var.kind) || matches!(norm(var.kind), 2 | 3)) {
                        interesting = true;
                        if matches!(current, Variant::String(s) if !s.as_ref().is_ascii()) {
                            ctx.class("range_read_on_non_ascii_string");
                        }
                    }
                    match model_range(current, &nr) {
                        Some(Ok(want)) => {
                            // a Bad status is allowed by the property; a Good one must carry the right data
                            if status.is_good() && dv.value.as_ref() != Some(&want) {
                                return ctx.fail("read/wrong-value", format!("step {}: read of variable {} (kind {}) with range {:?} returned {:?}, the value written is {:?} whose range is {:?}", step, k, norm(var.kind), range, dv.value, current, want));
                            }
                            if range.is_none() && !status.is_good() {
                                return ctx.fail("read/full-read-failed", format!("step {}: plain read of readable variable {} answered {}", step, k, status));
                            }
                        }
                        Some(Err(())) => {
                            if status.is_good() && dv.value.is_some() && range.is_some() {
                                return ctx.fail("read/range-outside-value-answered", format!("step {}: range {:?} lies outside {:?} but {:?} was returned", step, range, current, dv.value));
                            }
                        }
                        None => {}
                    }
                }
                Op::Write(v, attr, sel, x, y, kind, seed) => {
                    let k = *v as usize % nv;
                    let var = &c.vars[k];
                    let mut range = range_string(*sel, *x, *y);
                    let mut value = if *kind == 8 { Variant::Empty } else { make_value(*kind, *seed) };
                    // steer a share of the writes to well-formed range writes: a range inside the array the model holds
                    // and exactly as many values of the element type
                    if *sel % 10 == 4 || *sel % 10 == 3 {
                        if let Some(Variant::Array(cur)) = &model[k] {
                            if !cur.values.is_empty() {
                                let a = *x as usize % cur.values.len();
                                let b = if *sel % 10 == 3 { a } else { a + (*y as usize % (cur.values.len() - a)) };
                                range = Some(if *sel % 10 == 3 { format!("{}", a) } else { format!("{}:{}", a, b.max(a + 1).min(cur.values.len() - 1).max(a)) });
                                let (a, b) = match range.as_ref().unwrap().parse::<NumericRange>() {
                                    Ok(NumericRange::Range(a, b)) => (a as usize, b as usize),
                                    _ => (a, a),
                                };
                                let elems: Vec<Variant> = (0..(b - a + 1))
                                    .map(|j| match cur.value_type {
                                        VariantTypeId::Int32 => Variant::Int32(*seed as i32 * 3 + j as i32),
                                        VariantTypeId::Byte => Variant::Byte((*seed as u8).wrapping_mul(3).wrapping_add(j as u8)),
                                        _ => Variant::from(make_string(seed.wrapping_add(j as u16), false)),
                                    })
                                    .collect();
                                value = Variant::from((cur.value_type, elems));
                            }
                        }
                    }
                    // and another share to range writes inside the array whose value has the element type but the wrong
                    // number of elements (shorter, longer, empty)
                    if *sel % 10 == 5 {
                        if let Some(Variant::Array(cur)) = &model[k] {
                            if cur.values.len() >= 2 {
                                let a = *x as usize % (cur.values.len() - 1);
                                let b = (a + 1 + (*y as usize % 4)).min(cur.values.len() + 2);
                                range = Some(format!("{}:{}", a, b));
                                let n = [0usize, 1, (b - a), (b - a) + 2][*seed as usize % 4];
                                let elems: Vec<Variant> = (0..n)
                                    .map(|j| match cur.value_type {
                                        VariantTypeId::Int32 => Variant::Int32(*seed as i32 * 5 + j as i32),
                                        VariantTypeId::Byte => Variant::Byte((*seed as u8).wrapping_mul(5).wrapping_add(j as u8)),
                                        _ => Variant::from(make_string(seed.wrapping_add(j as u16), false)),
                                    })
                                    .collect();
                                value = Variant::from((cur.value_type, elems));
                                ctx.class("range_write_with_wrong_element_count");
                            }
                        }
                    }
                    let kind = &(if let Variant::Array(a) = &value { match a.value_type { VariantTypeId::Int32 => 5u8, VariantTypeId::Byte => 7, VariantTypeId::String => 6, _ => *kind } } else { *kind });
                    let before = raw_value(&server, &id(k));
                    let h = conn.header(&token);
                    let req = WriteRequest {
                        request_header: h,
                        nodes_to_write: Some(vec![WriteValue { node_id: id(k), attribute_id: *attr as u32, index_range: range.as_ref().map(|s| UAString::from(s.as_str())).unwrap_or_else(UAString::null), value: DataValue::value_only(value.clone()) }]),
                    };
                    let r = ctx.guard(|| conn.call(req))?;
                    let status = match r {
                        SupportedMessage::WriteResponse(r) => match r.results.and_then(|v| v.first().copied()) {
                            Some(s) => s,
                            None => return ctx.fail("write/no-result", format!("step {}", step)),
                        },
                        other => return ctx.fail("write/fault", format!("step {}: {:?}", step, srv::status_of(&other))),
                    };
                    let after = raw_value(&server, &id(k));
                    if *attr != 13 {
                        if status.is_bad() && before.value != after.value {
                            return ctx.fail("write/refused-but-changed", format!("step {}: write to attribute {} refused with {} but the value changed", step, attr, status));
                        }
                        continue;
                    }
                    let writable = UserAccessLevel::from_bits_truncate(var.user_access_level).contains(UserAccessLevel::CURRENT_WRITE);
                    let same_type = *kind == 8 || data_type(*kind) == data_type(var.kind);
                    let compatible = same_type || (norm(*kind) == 3 && norm(var.kind) == 7);
                    if status.is_good() {
                        if !writable {
                            return ctx.fail("write/accepted-without-write-access", format!("step {}: variable {} has user access level {:#x} (access level {:#x}) and the write was answered Good", step, k, var.user_access_level, var.access_level));
                        }
                        if !compatible {
                            return ctx.fail("write/incompatible-type-accepted", format!("step {}: {:?} written to variable {} of data type {:?} was answered Good", step, value, k, data_type(var.kind)));
                        }
                        match &range {
                            None => {
                                let stored = if norm(*kind) == 3 && norm(var.kind) == 7 && *kind != 8 { value.to_byte_array().unwrap_or(value.clone()) } else { value.clone() };
                                if after.value.as_ref() != Some(&stored) {
                                    return ctx.fail("write/good-but-not-stored", format!("step {}: write of {:?} answered Good, the variable holds {:?}", step, stored, after.value));
                                }
                                model[k] = Some(stored);
                            }
                            Some(rs) => {
                                // modelled when well formed: array target, range inside, as many values as the range
                                let nr = rs.parse::<NumericRange>().ok();
                                let well_formed = match (&model[k], &nr, &value) {
                                    (Some(Variant::Array(cur)), Some(NumericRange::Index(i)), Variant::Array(w)) => (*i as usize) < cur.values.len() && w.values.len() == 1 && w.value_type == cur.value_type,
                                    (Some(Variant::Array(cur)), Some(NumericRange::Range(a, b)), Variant::Array(w)) => (*b as usize) < cur.values.len() && w.values.len() == (*b - *a + 1) as usize && w.value_type == cur.value_type,
                                    _ => false,
                                };
                                if well_formed {
                                    interesting = true;
                                    ctx.class("well_formed_range_write");
                                    if let (Some(Variant::Array(cur)), Some(nr), Variant::Array(w)) = (&mut model[k], &nr, &value) {
                                        let start = match nr {
                                            NumericRange::Index(i) => *i as usize,
                                            NumericRange::Range(a, _) => *a as usize,
                                            _ => 0,
                                        };
                                        for (j, x) in w.values.iter().enumerate() {
                                            cur.values[start + j] = x.clone();
                                        }
                                    }
                                    if after.value != model[k] {
                                        return ctx.fail("write/range-write-wrong-result", format!("step {}: range write {:?} of {:?} answered Good; the variable holds {:?}, expected {:?}", step, rs, value, after.value, model[k]));
                                    }
                                } else {
                                    // an ill-formed range write that the server applies partially is not modelled
                                    model[k] = after.value.clone();
                                }
                            }
                        }
                    } else {
                        if !writable {
                            interesting = true;
                            ctx.class("write_refused_for_access");
                        }
                        if before.value != after.value || before.status != after.status {
                            return ctx.fail("write/refused-but-changed", format!("step {}: write answered {} but the value changed from {:?} to {:?}", step, status, before.value, after.value));
                        }
                        if writable && compatible && range.is_none() && *kind != 8 {
                            // the property only says when a write may succeed, not that it must: counted, not judged
                            ctx.class("compatible_write_to_writable_variable_refused");
                        }
                    }
                }
            }
        }
        Ok(())
    })();
    {
        let a = server.address_space();
        let mut a = a.write();
        for i in 0..nv {
            a.delete(&id(i), true);
        }
    }
    if interesting {
        ctx.nontrivial();
    }
    verdict
}

pub fn def() -> PropDef {
    PropDef {
        id: "C32",
        rule: "1..4 variables (Int32, Double, String with 1-4 byte characters, ByteString, Boolean, Byte, Int32 array, String array, Byte array) with generated access level and user access level bits, histories of up to 20 Read / Write requests through the real dispatcher with attribute id 0..30 (mostly Value), index range strings (none, index, range inside / outside, reversed, malformed, multi-dimensional) and written values of every kind or Empty; oracle: every request is answered; a Good write to Value implies CURRENT_WRITE in the user access level and a compatible type, the stored value equals the written one (well-formed array range writes are modelled element-wise); a Bad write leaves the value and status identical; a Good read returns the model value or its sub-range (string ranges on byte offsets where they fall on character boundaries, any Bad status elsewhere); non-trivial = a range read or write on a string, byte string or array, or a write refused for access; distinct = distinct case",
        assumptions: &["ill-formed range writes that the server answers Good are not modelled (the model adopts what the variable then holds)", "a Bad status instead of data is always accepted for reads with an index range"],
        abort_possible: false,
        parts: |tier| vec![part("read_write_history", tier.pick(2000, 50000), (prop::collection::vec(var_strategy(), 1..5), prop::collection::vec(op_strategy(), 1..20)).prop_map(|(vars, ops)| Case { vars, ops }), run)],
    }
}

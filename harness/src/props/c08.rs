//! C08 — Modified or foreign secured chunks are never accepted.
use crate::engine::*;
use crate::fixtures;
use crate::props::c07::payload_message;
use opcua::core::comms::chunker::Chunker;
use opcua::core::comms::secure_channel::{Role, SecureChannel};
use opcua::core::supported_message::SupportedMessage;
use opcua::crypto::SecurityPolicy;
use opcua::types::*;
use proptest::prelude::*;
use serde::{Deserialize, Serialize};

#[derive(Clone, Debug, Serialize, Deserialize)]
pub enum Tamper {
    /// flip one bit; the position is scaled over the whole chunk
    FlipBit(u16, u8),
    /// flip one bit inside a named region: 0 message header, 1 security header, 2 first cipher/body block, 3 last block before the signature, 4 signature
    FlipIn(u8, u8, u8),
    Truncate(u8, bool),
    Append(u8, u8, bool),
    /// replace the tail (from a scaled position) with the tail of another valid chunk of the same channel
    SpliceTail(u16),
    TokenId(u32),
    /// secured by a channel whose keys were derived from other nonces
    ForeignKeys,
    /// secured on an earlier connection of the same channel object: the receiver had a token issued and renewed, was cleared
    /// (`clear_security_token`, what the client does when it reconnects) and got a new token with new nonces
    EarlierConnection,
    /// the receiver is first given an unsecured OpenSecureChannel chunk naming policy None (anyone can make one), then a chunk
    /// with one flipped bit
    FlipAfterUnsecuredOpn(u16, u8),
    /// asymmetric only: signed by another private key / another sender certificate in the header / wrong receiver thumbprint
    OtherSigner,
    OtherSenderCert,
    WrongThumbprint,
}

#[derive(Clone, Debug, Serialize, Deserialize)]
pub struct Case {
    /// 1..=10: secure policy/mode pairs
    pub pm: u8,
    pub payload: u16,
    pub client_sends: bool,
    pub asymmetric: bool,
    pub tamper: Tamper,
}

pub fn secure_one(from: &SecureChannel, msg: &SupportedMessage, seq: u32) -> Result<Vec<u8>, StatusCode> {
    secure_one_info(from, msg, seq).map(|x| x.0)
}

/// the secured bytes and the offset at which the (unencrypted) headers end
pub fn secure_one_info(from: &SecureChannel, msg: &SupportedMessage, seq: u32) -> Result<(Vec<u8>, usize), StatusCode> {
    let chunks = Chunker::encode(seq, 9, 0, 0, from, msg)?;
    let off = chunks[0].chunk_info(from)?.sequence_header_offset;
    let mut buf = vec![0u8; chunks[0].data.len() * 2 + 8192];
    let n = from.apply_security(&chunks[0], &mut buf)?;
    buf.truncate(n);
    Ok((buf, off))
}

pub fn opn_request(policy: SecurityPolicy, mode: MessageSecurityMode) -> SupportedMessage {
    OpenSecureChannelRequest {
        request_header: RequestHeader::dummy(),
        client_protocol_version: 0,
        request_type: SecurityTokenRequestType::Issue,
        security_mode: mode,
        client_nonce: ByteString::from(fixtures::nonce_for(policy, 9)),
        requested_lifetime: 60000,
    }
    .into()
}

fn patch_size(b: &mut Vec<u8>) {
    if b.len() >= 8 {
        let n = (b.len() as u32).to_le_bytes();
        b[4..8].copy_from_slice(&n);
    }
}

fn check(ctx: &Ctx, c: &Case) -> PResult {
    let pm = 1 + (c.pm as usize % 10);
    let (policy, mode) = fixtures::policy_mode(pm);
    let sha1 = matches!(policy, SecurityPolicy::Basic128Rsa15 | SecurityPolicy::Basic256);
    let (ck, sk) = if sha1 { ("rsa1024a", "rsa2048b") } else { ("rsa2048a", "rsa2048b") };
    let cn = fixtures::nonce_for(policy, 3);
    let sn = fixtures::nonce_for(policy, 77);
    let (client, server) = fixtures::channel_pair(policy, mode, ck, sk, &cn, &sn);
    // asymmetric OPN chunks go from the client to the server
    let client_sends = c.client_sends || c.asymmetric;
    let (from, mut to) = if client_sends { (client, server) } else { (server, client) };
    let msg = if c.asymmetric { opn_request(policy, mode) } else { payload_message(c.payload as usize % 3000) };
    let Ok((good, sec_hdr_end)) = secure_one_info(&from, &msg, 1) else {
        return ctx.fail("setup/secure", "could not secure the control chunk");
    };
    // control: the unmutated chunk must be accepted, otherwise the case is vacuous
    let mut control = {
        let (c2, s2) = fixtures::channel_pair(policy, mode, ck, sk, &cn, &sn);
        if client_sends { s2 } else { c2 }
    };
    match ctx.guard(|| control.verify_and_remove_security(&good))? {
        Ok(ch) => match Chunker::decode(&[ch], &control, None) {
            Ok(m) if m == msg => {}
            other => return ctx.fail("control/decode", format!("unmutated chunk does not decode to the original: {:?}", other.map(|_| ()))),
        },
        Err(e) => return ctx.fail("control/rejected", format!("{:?}/{:?}: unmutated chunk rejected with {}", policy, mode, e)),
    }
    let len = good.len();
    let sig_size = if c.asymmetric { if sha1 { 128 } else { 256 } } else { policy.symmetric_signature_size() };
    let mut bad = good.clone();
    let name: String;
    match &c.tamper {
        Tamper::FlipBit(p, bit) => {
            let i = (*p as usize * len) >> 16;
            bad[i] ^= 1 << (bit % 8);
            name = format!("flip-bit/{}", if i < 12 { "message-header" } else if i < sec_hdr_end { "security-header" } else if i >= len - sig_size.min(len) { "tail" } else { "body" });
        }
        Tamper::FlipIn(region, off, bit) => {
            let (lo, hi) = match region % 5 {
                0 => (0, 12),
                1 => (12, sec_hdr_end.min(len)),
                2 => (sec_hdr_end.min(len - 1), (sec_hdr_end + 16).min(len)),
                3 => (len.saturating_sub(sig_size + 16), len.saturating_sub(sig_size).max(1)),
                _ => (len.saturating_sub(sig_size), len),
            };
            let i = lo + (*off as usize % (hi - lo).max(1));
            let i = i.min(len - 1);
            bad[i] ^= 1 << (bit % 8);
            name = format!("flip-in-region-{}", region % 5);
        }
        Tamper::Truncate(k, patch) => {
            let k = 1 + (*k as usize % 64);
            bad.truncate(len.saturating_sub(k).max(12));
            if *patch {
                patch_size(&mut bad);
            }
            name = format!("truncate{}", if *patch { "-size-patched" } else { "" });
        }
        Tamper::Append(k, v, patch) => {
            let k = 1 + (*k as usize % 64);
            bad.extend(std::iter::repeat(*v).take(k));
            if *patch {
                patch_size(&mut bad);
            }
            name = format!("append{}", if *patch { "-size-patched" } else { "" });
        }
        Tamper::SpliceTail(p) => {
            let other_msg = if c.asymmetric { opn_request(policy, MessageSecurityMode::Sign) } else { payload_message((c.payload as usize % 3000) + 17) };
            let Ok(other) = secure_one(&from, &other_msg, 2) else { return Ok(()) };
            let cut = sec_hdr_end + ((*p as usize * (len - sec_hdr_end).max(1)) >> 16);
            let cut = cut.min(len).min(other.len());
            bad.truncate(cut);
            bad.extend_from_slice(&other[cut..]);
            patch_size(&mut bad);
            if bad == good || bad == other {
                return Ok(());
            }
            name = "splice-tail".into();
        }
        Tamper::TokenId(t) => {
            if c.asymmetric {
                return Ok(());
            }
            let cur = u32::from_le_bytes([bad[12], bad[13], bad[14], bad[15]]);
            let t = if *t == cur { t.wrapping_add(1) } else { *t };
            bad[12..16].copy_from_slice(&t.to_le_bytes());
            name = "token-id".into();
        }
        Tamper::ForeignKeys => {
            if c.asymmetric {
                return Ok(());
            }
            let (c2, s2) = fixtures::channel_pair(policy, mode, ck, sk, &fixtures::nonce_for(policy, 4), &sn);
            let foreign = if client_sends { c2 } else { s2 };
            let Ok(b) = secure_one(&foreign, &msg, 1) else { return Ok(()) };
            bad = b;
            name = "foreign-keys".into();
        }
        Tamper::FlipAfterUnsecuredOpn(p, bit) => {
            if c.asymmetric {
                return Ok(());
            }
            let plain = fixtures::plain_channel(if client_sends { Role::Client } else { Role::Server });
            let opn: SupportedMessage = if client_sends {
                opn_request(SecurityPolicy::None, MessageSecurityMode::None)
            } else {
                OpenSecureChannelResponse { response_header: ResponseHeader::new_good(&RequestHeader::dummy()), server_protocol_version: 0, security_token: ChannelSecurityToken { channel_id: 7, token_id: 0, created_at: DateTime::now(), revised_lifetime: 60000 }, server_nonce: ByteString::null() }.into()
            };
            let Ok(chunks) = Chunker::encode(1, 1, 0, 0, &plain, &opn) else { return Ok(()) };
            // whatever the receiver says to it, it must not stop verifying what follows
            let _ = ctx.guard(|| to.verify_and_remove_security(&chunks[0].data))?;
            let i = sec_hdr_end + ((*p as usize * (len - sec_hdr_end)) >> 16);
            bad[i.min(len - 1)] ^= 1 << (bit % 8);
            name = "flip-after-unsecured-opn".into();
        }
        Tamper::EarlierConnection => {
            if c.asymmetric {
                return Ok(());
            }
            // first connection: token 1 issued, then renewed to token 2 with new nonces
            let (mut c1, mut s1) = fixtures::channel_pair(policy, mode, ck, sk, &fixtures::nonce_for(policy, 40), &fixtures::nonce_for(policy, 41));
            let (n2c, n2s) = (fixtures::nonce_for(policy, 42), fixtures::nonce_for(policy, 43));
            for (ch, local, remote) in [(&mut c1, &n2c, &n2s), (&mut s1, &n2s, &n2c)] {
                ch.set_token_id(1);
                ch.set_token_id(2);
                ch.set_local_nonce(local);
                ch.set_remote_nonce(remote);
                ch.derive_keys();
            }
            let (old_sender, mut receiver) = if client_sends { (c1, s1) } else { (s1, c1) };
            let Ok(b) = secure_one(&old_sender, &msg, 1) else { return Ok(()) };
            bad = b;
            // the connection is gone; the same channel object is used for the next one
            receiver.clear_security_token();
            receiver.set_security_token(ChannelSecurityToken { channel_id: 7, token_id: 1, created_at: DateTime::now(), revised_lifetime: 60_000 });
            let (mut fresh_c, mut fresh_s) = fixtures::channel_pair(policy, mode, ck, sk, &cn, &sn);
            fresh_c.set_token_id(1);
            fresh_s.set_token_id(1);
            if client_sends {
                receiver.set_local_nonce(&sn);
                receiver.set_remote_nonce(&cn);
            } else {
                receiver.set_local_nonce(&cn);
                receiver.set_remote_nonce(&sn);
            }
            receiver.derive_keys();
            // the reconnected receiver works: a chunk of the new connection is accepted
            let fresh_sender = if client_sends { fresh_c } else { fresh_s };
            let Ok(ok) = secure_one(&fresh_sender, &msg, 1) else { return Ok(()) };
            if ctx.guard(|| receiver.verify_and_remove_security(&ok))?.is_err() {
                return ctx.fail("control/reconnected-receiver-rejects", format!("{:?}/{:?}: the receiver rejects a chunk of its new connection", policy, mode));
            }
            to = receiver;
            name = "earlier-connection".into();
        }
        Tamper::OtherSigner | Tamper::OtherSenderCert | Tamper::WrongThumbprint => {
            if !c.asymmetric {
                return Ok(());
            }
            // a second client with another key pair of the same size
            let ck2 = if sha1 { "rsa1024b" } else { "rsa2048b" };
            let (mut c2, _) = fixtures::channel_pair(policy, mode, ck2, sk, &cn, &sn);
            match &c.tamper {
                Tamper::OtherSigner => {
                    // signs with its own key but presents the genuine client's certificate
                    c2.set_cert(Some(fixtures::load_cert(ck)));
                    name = "other-signer".into();
                }
                Tamper::OtherSenderCert => {
                    // genuine key, but another certificate in the header
                    c2.set_private_key(Some(fixtures::load_key(ck)));
                    name = "other-sender-certificate".into();
                }
                _ => {
                    // encrypts for (and names the thumbprint of) a certificate that is not the receiver's
                    c2 = fixtures::channel_pair(policy, mode, ck, if sha1 { "rsa1024b" } else { "rsa2048a" }, &cn, &sn).0;
                    name = "wrong-receiver-thumbprint".into();
                }
            }
            let Ok(b) = secure_one(&c2, &msg, 1) else { return Ok(()) };
            bad = b;
        }
    }
    if bad == good {
        return Ok(());
    }
    ctx.nontrivial();
    ctx.class(&format!("{}{}", if c.asymmetric { "asym/" } else { "sym/" }, name));
    ctx.class(&format!("{:?}/{:?}", policy, mode));
    let verdict = match guarded(|| to.verify_and_remove_security(&bad)) {
        Ok(v) => v,
        Err(_) => {
            // a panic is C09's subject, not an acceptance
            ctx.class("panicked_instead_of_rejecting");
            return Ok(());
        }
    };
    if let Ok(ch) = verdict {
        let delivered = match guarded(|| Chunker::validate_chunks(1, &to, std::slice::from_ref(&ch)).and_then(|_| Chunker::decode(std::slice::from_ref(&ch), &to, None))) {
            Ok(r) => r,
            Err(_) => {
                ctx.class("panicked_instead_of_rejecting");
                return Ok(());
            }
        };
        let what = match &delivered {
            Ok(m) if *m == msg => "delivered as the original message",
            Ok(_) => "delivered as another message",
            Err(_) => "passed verification (decode failed afterwards)",
        };
        return ctx.fail(format!("accepted/{}/{}", if c.asymmetric { "asym" } else { "sym" }, name), format!("{:?}/{:?}: tampered chunk ({:?}) {}", policy, mode, c.tamper, what));
    }
    Ok(())
}

fn tamper() -> impl Strategy<Value = Tamper> {
    prop_oneof![
        4 => (any::<u16>(), any::<u8>()).prop_map(|(p, b)| Tamper::FlipBit(p, b)),
        5 => (0u8..5, any::<u8>(), any::<u8>()).prop_map(|(r, o, b)| Tamper::FlipIn(r, o, b)),
        2 => (any::<u8>(), any::<bool>()).prop_map(|(k, p)| Tamper::Truncate(k, p)),
        2 => (any::<u8>(), any::<u8>(), any::<bool>()).prop_map(|(k, v, p)| Tamper::Append(k, v, p)),
        2 => any::<u16>().prop_map(Tamper::SpliceTail),
        1 => any::<u32>().prop_map(Tamper::TokenId),
        1 => Just(Tamper::ForeignKeys),
        1 => Just(Tamper::EarlierConnection),
        1 => (any::<u16>(), any::<u8>()).prop_map(|(p, b)| Tamper::FlipAfterUnsecuredOpn(p, b)),
        1 => Just(Tamper::OtherSigner),
        1 => Just(Tamper::OtherSenderCert),
        1 => Just(Tamper::WrongThumbprint),
    ]
}

/// every byte position of one chunk per configuration, one bit each (thorough)
fn every_position(tier: Tier) -> Box<dyn Iterator<Item = Case>> {
    let stride = if tier == Tier::Thorough { 1 } else { 37 };
    Box::new((0u8..10).flat_map(move |pm| {
        [false, true].into_iter().flat_map(move |asymmetric| {
            // position is scaled over the chunk length; 4096 steps cover every byte of chunks up to 4 KiB
            (0u32..4096).step_by(stride).map(move |i| Case { pm, payload: 600, client_sends: true, asymmetric, tamper: Tamper::FlipBit((i * 16) as u16, (i % 8) as u8) })
        })
    }))
}

pub fn def() -> PropDef {
    PropDef {
        id: "C08",
        rule: "a valid secured chunk (symmetric MSG in the 10 secure policy/mode pairs, asymmetric OPN per policy) plus one mutation: single bit flip (anywhere, and stratified over message header / security header / first block / last block / signature), truncation and extension with and without patching message_size, spliced tail of another valid chunk, other token id, keys from other nonces, a chunk of an earlier connection replayed to a cleared and re-issued receiver, a bit flip after the receiver was given an unsecured OPN chunk naming policy None, other signer, other sender certificate, wrong receiver thumbprint; thorough walks every byte position; oracle: control chunk accepted, mutated chunk never passes verification; non-trivial = mutated bytes differ from the original; distinct = distinct case",
        assumptions: &["a panic on a mutated chunk is C09's subject and is counted here, not treated as an acceptance", "symmetric token ids are compared only through the signature (the header is inside the signed range)"],
        abort_possible: false,
        parts: |tier| {
            vec![
                part("tamper", tier.pick(2_000, 60_000), (0u8..10, any::<u16>(), any::<bool>(), proptest::bool::weighted(0.3), tamper()).prop_map(|(pm, payload, client_sends, asymmetric, tamper)| Case { pm, payload, client_sends, asymmetric, tamper }), check),
                part_enum("every_position", every_position, check),
            ]
        },
    }
}

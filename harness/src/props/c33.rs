//! C33 — No well-formed request from an authenticated client crashes the server.
use crate::engine::*;
use crate::filler::Filler;
use crate::service_fillers::*;
use crate::srv::{self, Conn};
use opcua::core::supported_message::SupportedMessage;
use opcua::server::prelude::*;
use proptest::prelude::*;
use serde::{Deserialize, Serialize};
use std::cell::Cell;

#[derive(Clone, Debug, Serialize, Deserialize, PartialEq)]
pub struct Case {
    /// (service, steering) pairs
    pub requests: Vec<(u8, u8)>,
    /// bytes the structure fillers draw from
    pub data: Vec<u8>,
    pub ticks: u8,
    pub raise_event: bool,
}

const N_SERVICES: u8 = 30;

pub fn case() -> impl Strategy<Value = Case> {
    (prop::collection::vec((0u8..N_SERVICES, any::<u8>()), 1..9), prop::collection::vec(any::<u8>(), 0..600), 0u8..4, any::<bool>()).prop_map(|(requests, data, ticks, raise_event)| Case { requests, data, ticks, raise_event })
}

thread_local! {
    static CASE_NO: Cell<u64> = const { Cell::new(0) };
}

struct World {
    /// nodes of the case: event object, plain object, Int32 variable, non-ASCII string variable, a node that was deleted
    nodes: Vec<NodeId>,
    subs: Vec<u32>,
    items: Vec<u32>,
    added: Vec<NodeId>,
    fresh: u64,
    case_no: u64,
}

impl World {
    fn pool(&self, f: &mut Filler) -> NodeId {
        match f.below(16) {
            0..=5 => self.nodes[f.below(self.nodes.len())].clone(),
            6 => NodeId::null(),
            7 => NodeId::new(77, "unknown-namespace"),
            8 => NodeId::new(77, 5u32),
            9 => ObjectId::Server.into(),
            10 => ObjectId::ObjectsFolder.into(),
            11 => VariableId::Server_ServerStatus_CurrentTime.into(),
            12 => ObjectTypeId::BaseObjectType.into(),
            13 => ReferenceTypeId::HasComponent.into(),
            14 if !self.added.is_empty() => self.added[f.below(self.added.len().min(255))].clone(),
            _ => f.node_id(true),
        }
    }
    /// nodes that may be deleted: never a standard node
    fn own(&self, f: &mut Filler) -> NodeId {
        match f.below(8) {
            0..=4 => self.nodes[f.below(self.nodes.len())].clone(),
            5 if !self.added.is_empty() => self.added[f.below(self.added.len().min(255))].clone(),
            6 => NodeId::null(),
            _ => NodeId::new(77, 5u32),
        }
    }
    fn reference_type(&self, f: &mut Filler) -> NodeId {
        match f.below(8) {
            0 | 1 => ReferenceTypeId::Organizes.into(),
            2 | 3 => ReferenceTypeId::HasComponent.into(),
            4 => ReferenceTypeId::HasProperty.into(),
            5 => ReferenceTypeId::HasSubtype.into(),
            6 => NodeId::null(),
            _ => self.pool(f),
        }
    }
    fn sub(&self, f: &mut Filler) -> u32 {
        if !self.subs.is_empty() && f.below(8) != 0 {
            self.subs[f.below(self.subs.len().min(255))]
        } else {
            f.u32_biased()
        }
    }
    fn item(&self, f: &mut Filler) -> u32 {
        if !self.items.is_empty() && f.below(8) != 0 {
            self.items[f.below(self.items.len().min(255))]
        } else {
            f.u32_biased()
        }
    }
    fn browse_name(&self, f: &mut Filler) -> QualifiedName {
        let ns = [0u16, 0, 1, 2, 77, 65535][f.below(6)];
        let name = match f.below(6) {
            0 => UAString::null(),
            1 => UAString::from(""),
            2 => UAString::from("x".repeat(300)),
            3 => UAString::from(format!("n{}", f.u16())),
            _ => UAString::from(f.text(10)),
        };
        QualifiedName { namespace_index: ns, name }
    }
}

/// node id of a node of the case (the same scheme as in run_with)
fn nid_of_case(case_no: u64, s: &str) -> NodeId {
    NodeId::new(1, format!("c33-{}-{}-{}", std::process::id(), case_no, s))
}

fn object_attributes(f: &mut Filler) -> ExtensionObject {
    let m = AttributesMask::DISPLAY_NAME | AttributesMask::DESCRIPTION | AttributesMask::WRITE_MASK | AttributesMask::USER_WRITE_MASK | AttributesMask::EVENT_NOTIFIER;
    let mut a = ObjectAttributes { specified_attributes: if f.below(4) == 0 { f.u32() } else { m.bits() }, display_name: LocalizedText::from("o"), description: LocalizedText::new("", "d"), write_mask: f.u32(), user_write_mask: 0, event_notifier: f.u8() };
    // the mandatory bits plus any other valid bit, whether or not the field it names is there
    if f.chance(100) {
        a.specified_attributes |= f.u32() & AttributesMask::all().bits();
    }
    ExtensionObject::from_encodable(ObjectId::ObjectAttributes_Encoding_DefaultBinary, &a)
}

/// attributes of the other six node classes, every field from the byte stream, the mask steered to valid bits half of the time
fn other_class_attributes(f: &mut Filler) -> (NodeClass, ExtensionObject) {
    let all = AttributesMask::all().bits();
    let mask = |f: &mut Filler| match f.below(4) {
        0 => f.u32(),
        1 => all,
        _ => all & (f.u32() | f.u32()),
    };
    match f.below(6) {
        0 => {
            let mut a = fill_MethodAttributes(f, 1);
            a.specified_attributes = mask(f);
            (NodeClass::Method, ExtensionObject::from_encodable(ObjectId::MethodAttributes_Encoding_DefaultBinary, &a))
        }
        1 => {
            let mut a = fill_ObjectTypeAttributes(f, 1);
            a.specified_attributes = mask(f);
            (NodeClass::ObjectType, ExtensionObject::from_encodable(ObjectId::ObjectTypeAttributes_Encoding_DefaultBinary, &a))
        }
        2 => {
            let mut a = fill_VariableTypeAttributes(f, 1);
            a.specified_attributes = mask(f);
            if f.bool() {
                a.data_type = DataTypeId::Int32.into();
            }
            (NodeClass::VariableType, ExtensionObject::from_encodable(ObjectId::VariableTypeAttributes_Encoding_DefaultBinary, &a))
        }
        3 => {
            let mut a = fill_ReferenceTypeAttributes(f, 1);
            a.specified_attributes = mask(f);
            (NodeClass::ReferenceType, ExtensionObject::from_encodable(ObjectId::ReferenceTypeAttributes_Encoding_DefaultBinary, &a))
        }
        4 => {
            let mut a = fill_DataTypeAttributes(f, 1);
            a.specified_attributes = mask(f);
            (NodeClass::DataType, ExtensionObject::from_encodable(ObjectId::DataTypeAttributes_Encoding_DefaultBinary, &a))
        }
        _ => {
            let mut a = fill_ViewAttributes(f, 1);
            a.specified_attributes = mask(f);
            (NodeClass::View, ExtensionObject::from_encodable(ObjectId::ViewAttributes_Encoding_DefaultBinary, &a))
        }
    }
}

fn variable_attributes(f: &mut Filler) -> ExtensionObject {
    let m = AttributesMask::DISPLAY_NAME | AttributesMask::ACCESS_LEVEL | AttributesMask::USER_ACCESS_LEVEL | AttributesMask::DATA_TYPE | AttributesMask::HISTORIZING | AttributesMask::VALUE | AttributesMask::VALUE_RANK;
    let mut a = VariableAttributes {
            specified_attributes: if f.below(4) == 0 { f.u32() } else { m.bits() },
            display_name: LocalizedText::from("v"),
            description: LocalizedText::null(),
            write_mask: 0,
            user_write_mask: 0,
            value: f.variant(2),
            data_type: if f.bool() { DataTypeId::Int32.into() } else { f.node_id(true) },
            value_rank: [-3, -2, -1, 0, 1, 2, 100][f.below(7)],
            array_dimensions: if f.bool() { None } else { Some(vec![f.u32_biased()]) },
            access_level: f.u8(),
            user_access_level: f.u8(),
            minimum_sampling_interval: f.f64_biased(true),
            historizing: f.bool(),
        };
    // the mandatory bits plus any other valid bit, whether or not the field it names is there (array dimensions!)
    if f.chance(128) {
        a.specified_attributes |= f.u32() & AttributesMask::all().bits();
    }
    ExtensionObject::from_encodable(ObjectId::VariableAttributes_Encoding_DefaultBinary, &a)
}

fn literal(f: &mut Filler) -> ExtensionObject {
    ExtensionObject::from_encodable(ObjectId::LiteralOperand_Encoding_DefaultBinary, &LiteralOperand { value: f.variant(1) })
}

fn operand(f: &mut Filler, w: &World) -> ExtensionObject {
    match f.below(8) {
        0..=2 => literal(f),
        3 | 4 => ExtensionObject::from_encodable(ObjectId::ElementOperand_Encoding_DefaultBinary, &ElementOperand { index: [0u32, 1, 2, 3, 7, u32::MAX][f.below(6)] }),
        5 => ExtensionObject::from_encodable(
            ObjectId::SimpleAttributeOperand_Encoding_DefaultBinary,
            &SimpleAttributeOperand { type_definition_id: if f.bool() { ObjectTypeId::BaseEventType.into() } else { w.pool(f) }, browse_path: Some(vec![QualifiedName::from(["Severity", "Message", "SourceNode", "nope"][f.below(4)])]), attribute_id: [13u32, 1, 0, 99][f.below(4)], index_range: if f.bool() { UAString::null() } else { UAString::from(f.text(4)) } },
        ),
        6 => ExtensionObject::from_encodable(ObjectId::AttributeOperand_Encoding_DefaultBinary, &AttributeOperand { node_id: w.pool(f), alias: UAString::null(), browse_path: RelativePath { elements: None }, attribute_id: 13, index_range: UAString::null() }),
        _ => {
            if f.bool() {
                ExtensionObject::null()
            } else {
                f.extension_object()
            }
        }
    }
}

fn event_filter(f: &mut Filler, w: &World) -> ExtensionObject {
    let n = f.below(4);
    let elements: Vec<ContentFilterElement> = (0..n)
        .map(|_| {
            let k = f.below(4);
            ContentFilterElement { filter_operator: fill_FilterOperator(f), filter_operands: if f.below(8) == 0 { None } else { Some((0..k).map(|_| operand(f, w)).collect()) } }
        })
        .collect();
    let mut selects: Vec<SimpleAttributeOperand> = (0..f.below(3))
        .map(|_| SimpleAttributeOperand { type_definition_id: if f.bool() { ObjectTypeId::BaseEventType.into() } else { w.pool(f) }, browse_path: if f.below(6) == 0 { None } else { Some(vec![QualifiedName::from(["EventId", "SourceNode", "Severity", "zz"][f.below(4)])]) }, attribute_id: [13u32, 1, 99][f.below(3)], index_range: UAString::null() })
        .collect();
    // a select clause whose browse path ends at an existing node that is not an event field: a method, a type, a variable
    // two levels down, a property
    if f.chance(80) {
        let starts: [NodeId; 4] = [ObjectId::Server.into(), ObjectTypeId::BaseEventType.into(), ObjectId::ObjectsFolder.into(), ObjectId::Server_ServerCapabilities.into()];
        let start = starts[f.below(4)].clone();
        let path: Vec<QualifiedName> = match f.below(8) {
            0 => vec!["GetMonitoredItems".into()],
            1 => vec!["ResendData".into()],
            2 => vec!["AuditEventType".into()],
            3 => vec!["ServerStatus".into(), "State".into()],
            4 => vec!["ServerCapabilities".into()],
            5 => vec!["NamespaceArray".into()],
            6 => vec!["Server".into(), "GetMonitoredItems".into()],
            _ => vec!["OperationLimits".into(), "MaxNodesPerRead".into()],
        };
        selects.push(SimpleAttributeOperand { type_definition_id: start, browse_path: Some(path), attribute_id: [13u32, 1, 5][f.below(3)], index_range: UAString::null() });
    }
    ExtensionObject::from_encodable(ObjectId::EventFilter_Encoding_DefaultBinary, &EventFilter { select_clauses: if f.below(6) == 0 { None } else { Some(selects) }, where_clause: ContentFilter { elements: if n == 0 && f.bool() { None } else { Some(elements) } } })
}

fn monitoring_parameters(f: &mut Filler, w: &World, event: bool) -> MonitoringParameters {
    MonitoringParameters {
        client_handle: f.u32(),
        sampling_interval: if event { 0.0 } else { [-1.0, 0.0, 100.0, f64::NAN, f64::INFINITY, -1e300, 1e300][f.below(7)] },
        filter: if event {
            event_filter(f, w)
        } else {
            match f.below(5) {
                0 | 1 => ExtensionObject::null(),
                2 => ExtensionObject::from_encodable(ObjectId::DataChangeFilter_Encoding_DefaultBinary, &DataChangeFilter { trigger: fill_DataChangeTrigger(f), deadband_type: f.below(5) as u32, deadband_value: f.f64_biased(true) }),
                3 => event_filter(f, w),
                _ => f.extension_object(),
            }
        },
        queue_size: [0u32, 1, 2, 5, 10, 1000, u32::MAX][f.below(7)],
        discard_oldest: f.bool(),
    }
}

fn build(kind: u8, steer: u8, f: &mut Filler, w: &mut World, h: RequestHeader) -> SupportedMessage {
    let raw = steer % 4 == 0; // a quarter of the requests keep every generated field
    macro_rules! generic {
        ($fill:ident) => {{
            let mut r = $fill(f, 2);
            r.request_header = h;
            r
        }};
    }
    match kind % N_SERVICES {
        0 => {
            let mut r = generic!(fill_AddNodesRequest);
            if !raw {
                let n = 1 + f.below(3);
                r.nodes_to_add = Some(
                    (0..n)
                        .map(|_| {
                            w.fresh += 1;
                            let variable = f.below(3) == 0;
                            // half of the items are plausible apart from their browse name, so that they get past the checks
                            if f.bool() {
                                let mut item = AddNodesItem {
                                    parent_node_id: (if f.bool() { ObjectId::ObjectsFolder.into() } else { w.nodes[f.below(2)].clone() }).into(),
                                    reference_type_id: if f.bool() { ReferenceTypeId::Organizes.into() } else { ReferenceTypeId::HasComponent.into() },
                                    requested_new_node_id: if f.bool() { ExpandedNodeId::null() } else { NodeId::new(1, format!("c33-{}-{}-add{}", std::process::id(), w.case_no, w.fresh)).into() },
                                    browse_name: w.browse_name(f),
                                    node_class: if variable { NodeClass::Variable } else { NodeClass::Object },
                                    node_attributes: if variable { variable_attributes(f) } else { object_attributes(f) },
                                    type_definition: if variable { VariableTypeId::BaseDataVariableType.into() } else { ObjectTypeId::BaseObjectType.into() },
                                };
                                // a node of one of the other six classes (types, methods, views)
                                if f.chance(56) {
                                    let (class, attributes) = other_class_attributes(f);
                                    item.node_class = class;
                                    item.node_attributes = attributes;
                                    item.type_definition = if f.bool() { ExpandedNodeId::null() } else { item.type_definition };
                                    item.parent_node_id = match class {
                                        NodeClass::ObjectType => NodeId::from(&ObjectTypeId::BaseObjectType).into(),
                                        NodeClass::VariableType => NodeId::from(&VariableTypeId::BaseVariableType).into(),
                                        NodeClass::ReferenceType => NodeId::from(&ReferenceTypeId::References).into(),
                                        NodeClass::DataType => NodeId::from(&DataTypeId::BaseDataType).into(),
                                        _ => item.parent_node_id,
                                    };
                                    if matches!(class, NodeClass::ObjectType | NodeClass::VariableType | NodeClass::ReferenceType | NodeClass::DataType) && f.bool() {
                                        item.reference_type_id = ReferenceTypeId::HasSubtype.into();
                                    }
                                }
                                return item;
                            }
                            AddNodesItem {
                                parent_node_id: ExpandedNodeId { node_id: w.pool(f), namespace_uri: UAString::null(), server_index: if f.below(10) == 0 { f.u32() } else { 0 } },
                                reference_type_id: w.reference_type(f),
                                requested_new_node_id: match f.below(5) {
                                    0 | 1 => ExpandedNodeId::null(),
                                    2 => NodeId::new(1, format!("c33-{}-{}-add{}", std::process::id(), w.case_no, w.fresh)).into(),
                                    3 => w.pool(f).into(),
                                    _ => NodeId::new(f.u16(), f.u32_biased()).into(),
                                },
                                browse_name: w.browse_name(f),
                                node_class: if f.below(6) == 0 { fill_NodeClass(f) } else if variable { NodeClass::Variable } else { NodeClass::Object },
                                node_attributes: match f.below(6) {
                                    0 => f.extension_object(),
                                    _ if variable => variable_attributes(f),
                                    _ => object_attributes(f),
                                },
                                type_definition: match f.below(4) {
                                    0 => w.pool(f).into(),
                                    _ if variable => VariableTypeId::BaseDataVariableType.into(),
                                    _ => ObjectTypeId::BaseObjectType.into(),
                                },
                            }
                        })
                        .collect(),
                );
            }
            r.into()
        }
        1 => {
            let mut r = generic!(fill_AddReferencesRequest);
            if !raw {
                r.references_to_add = Some(
                    (0..1 + f.below(3))
                        .map(|_| {
                            let s = w.pool(f);
                            let t = if f.below(4) == 0 { s.clone() } else { w.pool(f) };
                            AddReferencesItem { source_node_id: s, reference_type_id: w.reference_type(f), is_forward: f.bool(), target_server_uri: UAString::null(), target_node_id: t.into(), target_node_class: if f.below(3) == 0 { fill_NodeClass(f) } else if f.bool() { NodeClass::Object } else { NodeClass::Variable } }
                        })
                        .collect(),
                );
            }
            r.into()
        }
        2 => {
            let mut r = generic!(fill_DeleteNodesRequest);
            r.nodes_to_delete = Some((0..1 + f.below(2)).map(|_| DeleteNodesItem { node_id: w.own(f), delete_target_references: f.bool() }).collect());
            r.into()
        }
        3 => {
            let mut r = generic!(fill_DeleteReferencesRequest);
            r.references_to_delete = Some((0..1 + f.below(2)).map(|_| DeleteReferencesItem { source_node_id: w.own(f), reference_type_id: w.reference_type(f), is_forward: f.bool(), target_node_id: w.own(f).into(), delete_bidirectional: f.bool() }).collect());
            r.into()
        }
        4 => {
            let mut r = generic!(fill_BrowseRequest);
            if !raw {
                r.view = ViewDescription { view_id: NodeId::null(), timestamp: DateTime::null(), view_version: 0 };
                if let Some(nodes) = r.nodes_to_browse.as_mut() {
                    for n in nodes.iter_mut() {
                        n.node_id = w.pool(f);
                        n.reference_type_id = w.reference_type(f);
                    }
                }
            }
            r.into()
        }
        5 => generic!(fill_BrowseNextRequest).into(),
        6 => {
            let mut r = generic!(fill_TranslateBrowsePathsToNodeIdsRequest);
            if !raw {
                if let Some(paths) = r.browse_paths.as_mut() {
                    for p in paths.iter_mut() {
                        p.starting_node = w.pool(f);
                        if let Some(es) = p.relative_path.elements.as_mut() {
                            for e in es.iter_mut() {
                                e.reference_type_id = w.reference_type(f);
                                e.target_name = w.browse_name(f);
                            }
                        }
                    }
                }
            }
            r.into()
        }
        7 => {
            let mut r = generic!(fill_ReadRequest);
            if !raw {
                r.max_age = [0.0, -1.0, 1e10, f64::NAN][f.below(4)];
                r.nodes_to_read = Some((0..1 + f.below(3)).map(|_| ReadValueId { node_id: w.pool(f), attribute_id: f.below(32) as u32, index_range: if f.bool() { UAString::null() } else { UAString::from(["0", "1:2", "0:100", "3", "1,1", "x", "", "2:1"][f.below(8)]) }, data_encoding: if f.below(4) == 0 { w.browse_name(f) } else { QualifiedName::null() } }).collect());
            }
            r.into()
        }
        8 => {
            let mut r = generic!(fill_WriteRequest);
            if !raw {
                let mut writes: Vec<WriteValue> = (0..1 + f.below(3)).map(|_| WriteValue { node_id: w.pool(f), attribute_id: if f.below(3) == 0 { f.below(32) as u32 } else { 13 }, index_range: if f.bool() { UAString::null() } else { UAString::from(["0", "1:2", "0:100", "3", "x", ""][f.below(6)]) }, value: if f.bool() { DataValue::value_only(f.variant(2)) } else { f.data_value(2) } }).collect();
                // a range write of the right element type on the array variable of the case: inside, across and beyond its end
                if f.chance(90) {
                    let n = 1 + f.below(7);
                    let value = Variant::from((0..n as i32).collect::<Vec<i32>>());
                    writes.push(WriteValue { node_id: nid_of_case(w.case_no, "arr"), attribute_id: 13, index_range: UAString::from(["1:2", "2:9", "0:3", "3:3", "3:4", "5:6", "1", "0:1,0:1"][f.below(8)]), value: DataValue::value_only(value) });
                }
                r.nodes_to_write = Some(writes);
            }
            r.into()
        }
        9 => generic!(fill_HistoryReadRequest).into(),
        10 => generic!(fill_HistoryUpdateRequest).into(),
        11 => {
            let mut r = generic!(fill_CallRequest);
            if !raw {
                r.methods_to_call = Some(
                    (0..1 + f.below(2))
                        .map(|_| CallMethodRequest {
                            object_id: if f.bool() { ObjectId::Server.into() } else { w.pool(f) },
                            method_id: match f.below(4) {
                                0 => MethodId::Server_GetMonitoredItems.into(),
                                1 => MethodId::Server_ResendData.into(),
                                _ => w.pool(f),
                            },
                            input_arguments: match f.below(5) {
                                0 => None,
                                1 => Some(vec![Variant::UInt32(w.sub(f))]),
                                n => Some((0..n).map(|_| f.variant(2)).collect()),
                            },
                        })
                        .collect(),
                );
            }
            r.into()
        }
        12 => {
            let mut r = generic!(fill_CreateSubscriptionRequest);
            if !raw {
                r.requested_publishing_interval = [100.0, 1000.0, 0.0, -1.0, f64::NAN, f64::INFINITY][f.below(6)];
            }
            r.into()
        }
        13 => {
            let mut r = generic!(fill_ModifySubscriptionRequest);
            r.subscription_id = w.sub(f);
            r.into()
        }
        14 => {
            let mut r = generic!(fill_SetPublishingModeRequest);
            r.subscription_ids = Some((0..f.below(3)).map(|_| w.sub(f)).collect());
            r.into()
        }
        15 => {
            let mut r = generic!(fill_DeleteSubscriptionsRequest);
            r.subscription_ids = Some((0..f.below(3)).map(|_| w.sub(f)).collect());
            r.into()
        }
        16 => {
            let mut r = generic!(fill_TransferSubscriptionsRequest);
            r.subscription_ids = Some((0..f.below(3)).map(|_| w.sub(f)).collect());
            r.into()
        }
        17 | 18 | 19 => {
            let mut r = generic!(fill_CreateMonitoredItemsRequest);
            r.subscription_id = w.sub(f);
            if !raw {
                r.timestamps_to_return = fill_TimestampsToReturn(f);
                r.items_to_create = Some(
                    (0..1 + f.below(3))
                        .map(|_| {
                            let event = f.below(3) == 0;
                            MonitoredItemCreateRequest {
                                item_to_monitor: ReadValueId {
                                    node_id: if event && f.below(4) != 0 { w.nodes[0].clone() } else { w.pool(f) },
                                    attribute_id: if event { 12 } else if f.below(5) == 0 { f.below(32) as u32 } else { 13 },
                                    index_range: if f.below(5) == 0 { UAString::from(f.text(4)) } else { UAString::null() },
                                    data_encoding: QualifiedName::null(),
                                },
                                monitoring_mode: fill_MonitoringMode(f),
                                requested_parameters: monitoring_parameters(f, w, event),
                            }
                        })
                        .collect(),
                );
            }
            r.into()
        }
        20 => {
            let mut r = generic!(fill_ModifyMonitoredItemsRequest);
            r.subscription_id = w.sub(f);
            if !raw {
                r.items_to_modify = Some((0..1 + f.below(2)).map(|_| { let ev = f.below(4) == 0; MonitoredItemModifyRequest { monitored_item_id: w.item(f), requested_parameters: monitoring_parameters(f, w, ev) } }).collect());
            }
            r.into()
        }
        21 => {
            let mut r = generic!(fill_SetMonitoringModeRequest);
            r.subscription_id = w.sub(f);
            r.monitored_item_ids = Some((0..f.below(3)).map(|_| w.item(f)).collect());
            r.into()
        }
        22 => {
            let mut r = generic!(fill_SetTriggeringRequest);
            r.subscription_id = w.sub(f);
            r.triggering_item_id = w.item(f);
            r.links_to_add = Some((0..f.below(3)).map(|_| w.item(f)).collect());
            r.links_to_remove = Some((0..f.below(3)).map(|_| w.item(f)).collect());
            r.into()
        }
        23 => {
            let mut r = generic!(fill_DeleteMonitoredItemsRequest);
            r.subscription_id = w.sub(f);
            r.monitored_item_ids = Some((0..f.below(3)).map(|_| w.item(f)).collect());
            r.into()
        }
        24 => {
            let mut r = generic!(fill_PublishRequest);
            if !raw {
                let n = [0usize, 1, 2, 250][f.below(4)];
                r.subscription_acknowledgements = Some((0..n).map(|i| SubscriptionAcknowledgement { subscription_id: w.sub(f), sequence_number: if f.bool() { i as u32 } else { f.u32_biased() } }).collect());
            }
            r.into()
        }
        25 => {
            let mut r = generic!(fill_RepublishRequest);
            r.subscription_id = w.sub(f);
            r.into()
        }
        26 => generic!(fill_RegisterNodesRequest).into(),
        27 => generic!(fill_UnregisterNodesRequest).into(),
        28 => {
            if f.bool() {
                generic!(fill_QueryFirstRequest).into()
            } else {
                generic!(fill_QueryNextRequest).into()
            }
        }
        _ => generic!(fill_CancelRequest).into(),
    }
}

pub fn run_with(ctx: &Ctx, c: &Case, modify: bool) -> PResult {
    let server = srv::worker_server(modify);
    let mut conn = Conn::open(server.clone());
    let token = conn.session();
    let session = conn.session_object(&token).unwrap();
    let case_no = CASE_NO.with(|n| {
        n.set(n.get() + 1);
        n.get()
    });
    let nid = |s: &str| NodeId::new(1, format!("c33-{}-{}-{}", std::process::id(), case_no, s));
    let mut w = World { nodes: vec![nid("ev"), nid("obj"), nid("int"), nid("str"), nid("gone")], subs: Vec::new(), items: Vec::new(), added: Vec::new(), fresh: 0, case_no };
    {
        let a = server.address_space();
        let mut a = a.write();
        ObjectBuilder::new(&w.nodes[0], "ev", "ev").event_notifier(EventNotifier::SUBSCRIBE_TO_EVENTS).organized_by(ObjectId::ObjectsFolder).insert(&mut a);
        ObjectBuilder::new(&w.nodes[1], "obj", "obj").organized_by(w.nodes[0].clone()).insert(&mut a);
        VariableBuilder::new(&w.nodes[2], "int", "int").data_type(DataTypeId::Int32).value(1i32).writable().component_of(w.nodes[1].clone()).insert(&mut a);
        VariableBuilder::new(&w.nodes[3], "str", "str").data_type(DataTypeId::String).value("a€語𝄞z").writable().component_of(w.nodes[1].clone()).insert(&mut a);
        // an array variable (not in the pool: it is addressed by the steered range writes and removed with the other own nodes)
        VariableBuilder::new(&nid("arr"), "arr", "arr").data_type(DataTypeId::Int32).value_rank(1).value(vec![10i32, 11, 12, 13]).writable().component_of(w.nodes[1].clone()).insert(&mut a);
    }
    // a subscription with a data item (queue size 5) and an event item exists from the start, so that the monitored item
    // and subscription services meet real ids
    {
        let h = conn.header(&token);
        if let SupportedMessage::CreateSubscriptionResponse(r) = conn.call(CreateSubscriptionRequest { request_header: h, requested_publishing_interval: 100.0, requested_lifetime_count: 300, requested_max_keep_alive_count: 10, max_notifications_per_publish: 0, publishing_enabled: true, priority: 0 }) {
            w.subs.push(r.subscription_id);
            let h = conn.header(&token);
            let item = |node: &NodeId, attr: u32, filter: ExtensionObject, q: u32| MonitoredItemCreateRequest {
                item_to_monitor: ReadValueId { node_id: node.clone(), attribute_id: attr, index_range: UAString::null(), data_encoding: QualifiedName::null() },
                monitoring_mode: MonitoringMode::Reporting,
                requested_parameters: MonitoringParameters { client_handle: 1, sampling_interval: 0.0, filter, queue_size: q, discard_oldest: true },
            };
            let ev = ExtensionObject::from_encodable(ObjectId::EventFilter_Encoding_DefaultBinary, &EventFilter { select_clauses: Some(vec![SimpleAttributeOperand::new(ObjectTypeId::BaseEventType, "EventId", AttributeId::Value, UAString::null())]), where_clause: ContentFilter { elements: None } });
            if let SupportedMessage::CreateMonitoredItemsResponse(r) = conn.call(CreateMonitoredItemsRequest { request_header: h, subscription_id: r.subscription_id, timestamps_to_return: TimestampsToReturn::Both, items_to_create: Some(vec![item(&w.nodes[2], 13, ExtensionObject::null(), 5), item(&w.nodes[0], 12, ev, 3)]) }) {
                for x in r.results.iter().flatten() {
                    if x.status_code.is_good() {
                        w.items.push(x.monitored_item_id);
                    }
                }
            }
        }
    }
    let mut f = Filler::new(&c.data);
    let mut good_items = false;
    let t0 = chrono::Utc::now() + chrono::Duration::hours(1);

    let verdict = (|| -> PResult {
        for (i, (kind, steer)) in c.requests.iter().enumerate() {
            let h = conn.header(&token);
            let req = build(*kind, *steer, &mut f, &mut w, h);
            let name = format!("{:?}", req.node_id());
            ctx.class(&format!("service_{:02}", kind % N_SERVICES));
            let (r, out) = match ctx.guard(|| conn.send(&req)) {
                Ok(x) => x,
                Err(mut fl) => {
                    fl.detail = format!("request {} (service {}, object id {}): {}", i, kind % N_SERVICES, name, fl.detail);
                    return Err(fl);
                }
            };
            if r.is_err() {
                return ctx.fail("handler-error", format!("request {} (service {}): the message handler returned {:?}", i, kind % N_SERVICES, r));
            }
            for m in &out {
                match m {
                    SupportedMessage::CreateSubscriptionResponse(r) => {
                        w.subs.push(r.subscription_id);
                        good_items = true;
                    }
                    SupportedMessage::CreateMonitoredItemsResponse(r) => {
                        for x in r.results.iter().flatten() {
                            if x.status_code.is_good() {
                                w.items.push(x.monitored_item_id);
                                good_items = true;
                                ctx.class("monitored_item_created");
                            }
                        }
                    }
                    SupportedMessage::AddNodesResponse(r) => {
                        for x in r.results.iter().flatten() {
                            if x.status_code.is_good() {
                                w.added.push(x.added_node_id.clone());
                                good_items = true;
                                ctx.class("node_added");
                            }
                        }
                    }
                    SupportedMessage::AddReferencesResponse(r) => {
                        if r.results.iter().flatten().any(|s| s.is_good()) {
                            good_items = true;
                            ctx.class("reference_added");
                        }
                    }
                    SupportedMessage::DeleteNodesResponse(r) => {
                        if r.results.iter().flatten().any(|s| s.is_good()) {
                            good_items = true;
                            ctx.class("node_deleted");
                        }
                    }
                    SupportedMessage::WriteResponse(r) => {
                        if r.results.iter().flatten().any(|s| s.is_good()) {
                            good_items = true;
                        }
                    }
                    SupportedMessage::ReadResponse(r) => {
                        if r.results.iter().flatten().any(|d| d.status.map(|s| s.is_good()).unwrap_or(true)) {
                            good_items = true;
                        }
                    }
                    SupportedMessage::ModifyMonitoredItemsResponse(r) => {
                        if r.results.iter().flatten().any(|d| d.status_code.is_good()) {
                            good_items = true;
                            ctx.class("monitored_item_modified");
                        }
                    }
                    SupportedMessage::CallResponse(r) => {
                        if r.results.iter().flatten().any(|d| d.status_code.is_good()) {
                            good_items = true;
                            ctx.class("method_called");
                        }
                    }
                    _ => {}
                }
            }
        }
        // an event on the notifier object, then the timer ticks of the connection
        if c.raise_event {
            let a = server.address_space();
            let ev = nid(&format!("event{}", c.ticks));
            let r = ctx.guard(|| {
                let mut a = a.write();
                let mut e = BaseEventType::new(&ev, ObjectTypeId::BaseEventType, "e", "e", NodeId::objects_folder_id(), DateTime::from(t0 + chrono::Duration::milliseconds(500))).source_node(w.nodes[0].clone());
                e.raise(&mut a).is_ok()
            })?;
            if r {
                w.added.push(ev);
            }
        }
        for k in 0..c.ticks {
            let now = t0 + chrono::Duration::seconds(1 + k as i64);
            let a = server.address_space();
            let s = session.clone();
            ctx.guard(move || {
                let a = a.read();
                let mut s = s.write();
                s.verif_expire_stale_publish_requests(&now);
                let _ = s.verif_tick_subscriptions(&now, &a);
                s.verif_take_publish_responses().len()
            })
            .map_err(|mut fl| {
                fl.detail = format!("subscription tick {}: {}", k, fl.detail);
                fl
            })?;
        }
        // still serving
        let h = conn.header(&token);
        let r = ctx.guard(|| conn.call(ReadRequest { request_header: h, max_age: 0.0, timestamps_to_return: TimestampsToReturn::Both, nodes_to_read: Some(vec![ReadValueId::from(NodeId::from(&VariableId::Server_ServerStatus_State))]) }))?;
        if !matches!(r, SupportedMessage::ReadResponse(_)) {
            return ctx.fail("not-serving-afterwards", format!("a plain Read after the history was answered with {:?}", srv::status_of(&r)));
        }
        Ok(())
    })();
    // tidy up; if the case damaged the standard nodes (or panicked half way), start from a fresh address space
    let damaged = {
        let a = server.address_space();
        let mut a = a.write();
        let arr = nid_of_case(w.case_no, "arr");
        for n in w.nodes.iter().chain(w.added.iter()).chain(std::iter::once(&arr)) {
            if n.namespace == 1 && matches!(&n.identifier, Identifier::String(s) if s.as_ref().starts_with("c33-")) || matches!(n.identifier, Identifier::Numeric(_)) && n.namespace == 1 {
                a.delete(n, true);
            }
        }
        let sentinels: [NodeId; 6] = [ObjectId::RootFolder.into(), ObjectId::ObjectsFolder.into(), ObjectId::Server.into(), ObjectTypeId::BaseObjectType.into(), ReferenceTypeId::HasComponent.into(), VariableId::Server_ServerStatus_State.into()];
        sentinels.iter().any(|n| !a.node_exists(n)) || a.find_references(&ObjectId::RootFolder.into(), None::<(NodeId, bool)>).map(|v| v.len()).unwrap_or(0) < 3
    };
    if damaged || verdict.is_err() {
        srv::reset_address_space(&server);
        ctx.class("address_space_reset");
    }
    if good_items {
        ctx.nontrivial();
    }
    verdict
}

pub fn def() -> PropDef {
    PropDef {
        id: "C33",
        rule: "1..8 requests on an activated session, each drawn from 30 service builders (every request structure is first filled field by field from generated bytes, then - for three quarters of the requests - node ids, browse names, reference types, subscription and item ids, filters and operands are steered towards existing / deleted / null / unknown-namespace / self / standard nodes, reserved-character and 300-byte browse names in namespaces 0, 1, 2, 77, 65535, event filters with malformed where clauses, non-finite intervals, huge acknowledgement lists), with and without the right to modify the address space, followed by an event on a notifier object, 0..3 subscription ticks and a final Read; oracle: every request is answered, no panic in the dispatcher or in the ticks, the final Read is answered; non-trivial = at least one item result was Good; distinct = distinct case",
        assumptions: &["panics whose root cause is the subject of another property (C24 queue shrink, C29 delete, C39 operators) surface here with the same source location; they are repaired there", "the address space is shared by the cases of a worker; it is replaced by a fresh one after a failure or when a case damaged the standard nodes"],
        abort_possible: true,
        parts: |tier| vec![part("modify_allowed", tier.pick(1500, 40000), case(), |ctx, c| run_with(ctx, c, true)), part("read_only_session", tier.pick(700, 20000), case(), |ctx, c| run_with(ctx, c, false))],
    }
}

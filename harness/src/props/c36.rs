//! C36 — Each received notification is acknowledged exactly once.
use crate::engine::*;
use crate::fixtures;
use opcua::client::verif::SessionInfo;
use opcua::client::{ClientBuilder, ClientEndpoint, IdentityToken, Session};
use opcua::core::supported_message::SupportedMessage;
use opcua::server::prelude::{
    DataChangeNotification, DataValue, DateTime, EndpointDescription, ExtensionObject, MessageSecurityMode, MonitoredItemNotification, NotificationMessage, ObjectId, PublishResponse, RequestHeader, ResponseHeader, ServiceFault, StatusCode, UserTokenPolicy,
};
use proptest::prelude::*;
use serde::{Deserialize, Serialize};
use std::collections::BTreeSet;
use std::future::Future;
use std::pin::Pin;
use std::sync::Arc;

#[derive(Clone, Debug, Serialize, Deserialize, PartialEq)]
pub enum Op {
    /// start a publish call (at most two are in flight)
    Start,
    /// answer the k-th call in flight: 0 data notification of subscription s, 1 service fault, 2 transport error, 3 timeout,
    /// 4 an unexpected response type
    Answer(u8, u8, u8),
}

fn op() -> impl Strategy<Value = Op> {
    prop_oneof![
        5 => Just(Op::Start),
        6 => (0u8..2, prop_oneof![6 => Just(0u8), 1 => Just(1u8), 1 => Just(2u8), 1 => Just(3u8), 1 => Just(4u8)], 0u8..3).prop_map(|(k, a, s)| Op::Answer(k, a, s)),
    ]
}

type PublishFuture = Pin<Box<dyn Future<Output = Result<bool, StatusCode>>>>;

struct InFlight {
    fut: PublishFuture,
    acks: Vec<(u32, u32)>,
    responder: tokio::sync::oneshot::Sender<Result<SupportedMessage, StatusCode>>,
    request_index: usize,
}

fn data_response(sub: u32, seq: u32) -> SupportedMessage {
    let dc = DataChangeNotification { monitored_items: Some(vec![MonitoredItemNotification { client_handle: 1, value: DataValue::value_only(seq as i32) }]), diagnostic_infos: None };
    PublishResponse {
        response_header: ResponseHeader::new_good(&RequestHeader::dummy()),
        subscription_id: sub,
        available_sequence_numbers: None,
        more_notifications: false,
        notification_message: NotificationMessage { sequence_number: seq, publish_time: DateTime::from(1_000i64), notification_data: Some(vec![ExtensionObject::from_encodable(ObjectId::DataChangeNotification_Encoding_DefaultBinary, &dc)]) },
        results: None,
        diagnostic_infos: None,
    }
    .into()
}

fn make_session() -> Arc<Session> {
    let pki = fixtures::scratch_dir("client-pki");
    let mut client = ClientBuilder::new()
        .application_name("verif-client")
        .application_uri("urn:verif:client")
        .pki_dir(pki)
        .create_sample_keypair(false)
        .trust_server_certs(true)
        .endpoint("e", ClientEndpoint::new("opc.tcp://127.0.0.1:4855/"))
        .default_endpoint("e")
        .session_retry_limit(0)
        .client()
        .unwrap_or_else(|| harness_error("client fixture configuration is invalid"));
    let endpoint: EndpointDescription = ("opc.tcp://127.0.0.1:4855/", "None", MessageSecurityMode::None, UserTokenPolicy::anonymous()).into();
    let info = SessionInfo { endpoint, user_identity_token: IdentityToken::Anonymous, preferred_locales: Vec::new() };
    match client.new_session_from_info(info) {
        Ok((s, _event_loop)) => s,
        Err(e) => harness_error(&format!("client session fixture: {}", e)),
    }
}

fn run(ctx: &Ctx, ops: &Vec<Op>) -> PResult {
    let ops = ops.clone();
    let r = guarded(|| block_on(async move { schedule(&ops).await }));
    match r {
        Ok(Ok(nontrivial)) => {
            if nontrivial {
                ctx.nontrivial();
            }
            Ok(())
        }
        Ok(Err(f)) => Err(f),
        Err(f) => Err(f),
    }
}

async fn schedule(ops: &[Op]) -> Result<bool, Failure> {
    let session = make_session();
    let mut wire = session.verif_channel().verif_attach(64);
    let mut inflight: Vec<InFlight> = Vec::new();
    // model
    let mut received: Vec<(u32, u32)> = Vec::new();
    let mut requests: Vec<(Vec<(u32, u32)>, Option<bool>)> = Vec::new(); // acks carried, Some(succeeded)
    let mut next_seq = [1u32; 3];
    let mut failure_between = false;
    let mut nontrivial = false;
    let fail = |sig: &str, d: String| Err(Failure { sig: sig.into(), detail: d });

    let mut steps: Vec<Op> = ops.to_vec();
    // the history ends with every call answered and one last successful publish, so that everything can be acknowledged
    steps.push(Op::Answer(0, 0, 0));
    steps.push(Op::Answer(0, 0, 0));
    steps.push(Op::Start);
    steps.push(Op::Answer(0, 0, 0));
    steps.push(Op::Start);
    steps.push(Op::Answer(0, 0, 1));

    for (i, op) in steps.iter().enumerate() {
        match op {
            Op::Start => {
                if inflight.len() >= 2 {
                    continue;
                }
                let s = session.clone();
                let mut fut: PublishFuture = Box::pin(async move { s.verif_publish().await });
                // first poll: the call takes its acknowledgements and hands the request to the transport
                if let std::task::Poll::Ready(r) = futures::poll!(fut.as_mut()) {
                    return fail("publish/returned-without-answer", format!("step {}: publish returned {:?} before the transport answered", i, r));
                }
                let Some((msg, responder)) = wire.try_next() else {
                    return fail("publish/no-request-sent", format!("step {}: the publish call did not send a request", i));
                };
                let SupportedMessage::PublishRequest(req) = msg else {
                    return fail("publish/other-request", format!("step {}: {:?}", i, msg.node_id()));
                };
                let Some(responder) = responder else { return fail("publish/no-callback", format!("step {}", i)) };
                let acks: Vec<(u32, u32)> = req.subscription_acknowledgements.unwrap_or_default().iter().map(|a| (a.subscription_id, a.sequence_number)).collect();
                // (1) nothing invented, (2) nothing that an earlier successful request already carried, nothing that another request
                // still in flight carries
                for a in &acks {
                    if !received.contains(a) {
                        return fail("ack/never-received", format!("step {}: the request acknowledges {:?}, which was never received (received {:?})", i, a, received));
                    }
                    for (j, (carried, outcome)) in requests.iter().enumerate() {
                        if carried.contains(a) && *outcome != Some(false) {
                            return fail(
                                if *outcome == Some(true) { "ack/sent-again-after-successful-send" } else { "ack/in-two-requests-at-once" },
                                format!("step {}: {:?} is acknowledged again although request {} ({:?}) already carried it", i, a, j, outcome),
                            );
                        }
                    }
                    if acks.iter().filter(|x| *x == a).count() > 1 {
                        return fail("ack/twice-in-one-request", format!("step {}: {:?}", i, acks));
                    }
                }
                if failure_between && !acks.is_empty() {
                    nontrivial = true;
                }
                requests.push((acks.clone(), None));
                inflight.push(InFlight { fut, acks, responder, request_index: requests.len() - 1 });
            }
            Op::Answer(k, kind, sub) => {
                if inflight.is_empty() {
                    continue;
                }
                let mut call = inflight.remove(*k as usize % inflight.len());
                let sub_id = 100 + (*sub as u32 % 3);
                let (answer, success): (Result<SupportedMessage, StatusCode>, bool) = match kind {
                    0 => {
                        let seq = next_seq[*sub as usize % 3];
                        next_seq[*sub as usize % 3] += 1;
                        received.push((sub_id, seq));
                        (Ok(data_response(sub_id, seq)), true)
                    }
                    1 => (Ok(ServiceFault::new(&RequestHeader::dummy(), StatusCode::BadTooManyPublishRequests).into()), false),
                    2 => (Err(StatusCode::BadConnectionClosed), false),
                    3 => (Err(StatusCode::BadTimeout), false),
                    _ => (Ok(opcua::server::prelude::ReadResponse { response_header: ResponseHeader::new_good(&RequestHeader::dummy()), results: None, diagnostic_infos: None }.into()), false),
                };
                let _ = call.responder.send(answer);
                let r = match futures::poll!(call.fut.as_mut()) {
                    std::task::Poll::Ready(r) => r,
                    std::task::Poll::Pending => return fail("publish/not-completed-by-answer", format!("step {}: the call is still pending after its request was answered", i)),
                };
                if r.is_ok() != success {
                    return fail("publish/result", format!("step {}: publish returned {:?} for answer kind {}", i, r, kind));
                }
                requests[call.request_index].1 = Some(success);
                if !success {
                    if !call.acks.is_empty() || !received.is_empty() {
                        failure_between = true;
                    }
                }
            }
        }
    }
    // (3) after the final successful publish every received pair - except the one delivered by that very last response - has been
    // carried by exactly one successful request
    let last = received.last().cloned();
    let mut acked: BTreeSet<(u32, u32)> = BTreeSet::new();
    for (carried, outcome) in &requests {
        if *outcome == Some(true) {
            for a in carried {
                if !acked.insert(*a) {
                    return fail("ack/two-successful-requests", format!("{:?} was carried by two successful requests; requests {:?}", a, requests));
                }
            }
        }
    }
    for r in &received {
        if Some(*r) == last {
            continue;
        }
        if !acked.contains(r) {
            return fail("ack/never-acknowledged", format!("{:?} was received but no successful publish request acknowledged it; requests (acks, succeeded) {:?}", r, requests));
        }
    }
    Ok(nontrivial)
}

pub fn def() -> PropDef {
    PropDef {
        id: "C36",
        rule: "schedules of up to 30 steps on a real client Session whose secure channel is attached to a fake transport owned by the harness: start a publish call (up to two in flight, each polled until its request reaches the transport), answer a call in flight with a data notification of one of three subscriptions, a ServiceFault, a transport error, a timeout or an unexpected response; every history ends with all calls answered and two successful publishes; oracle: every acknowledgement in a request was received before, is in no other unanswered or successful request, and after the end every received (subscription, sequence number) pair - apart from the one carried by the very last response - was carried by exactly one successful request; non-trivial = a failed call between two successful ones with acknowledgements outstanding; distinct = distinct schedule",
        assumptions: &["only data notifications are delivered (keep-alive messages are not notifications)", "the harness answers every request itself; the real transport, its timers and the session event loop are not run"],
        abort_possible: false,
        parts: |tier| vec![part("publish_schedule", tier.pick(1500, 2_000_000), prop::collection::vec(op(), 1..30), run)],
    }
}

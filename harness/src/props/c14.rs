//! C14 — Security token renewal never breaks a healthy channel (schedules around one or two renewals, real channel objects).
use crate::engine::*;
use crate::fixtures;
use crate::srv;
use opcua::client::verif::{SendBuffer, SessionInfo, VerifTransport};
use opcua::client::{AsyncSecureChannel, IdentityToken};
use opcua::core::comms::chunker::Chunker;
use opcua::core::comms::message_chunk::MessageChunk;
use opcua::core::comms::secure_channel::{Role, SecureChannel};
use opcua::core::comms::tcp_codec::Message;
use opcua::core::supported_message::SupportedMessage;
use opcua::crypto::SecurityPolicy;
use opcua::server::comms::tcp_transport::TcpTransport;
use opcua::server::prelude::*;
use opcua::sync::RwLock;
use proptest::prelude::*;
use serde::{Deserialize, Serialize};
use std::collections::VecDeque;
use std::sync::Arc;

const CLIENT_KEY: &str = "rsa2048a";

#[derive(Clone, Debug, Serialize, Deserialize, PartialEq)]
pub enum Op {
    /// the client hands a request to its transport: the chunk is built (token id into the header); with `flush` it is secured and
    /// put on the wire at once
    CSend(bool),
    /// the client transport secures its oldest built chunk with the keys it has now and puts it on the wire
    CFlush,
    /// real begin_issue_or_renew_secure_channel(Renew); the OPN request goes through the same transport
    CRenewBegin,
    /// the server reads the next chunk from the wire
    SRecv,
    /// the server's writer takes the oldest queued response and secures it with what the channel holds now
    SWrite,
    /// the client reads the next chunk from the wire
    CRecv,
    /// real end_issue_or_renew_secure_channel on the OPN response the client has received
    CRenewEnd,
}

#[derive(Clone, Debug, Serialize, Deserialize)]
pub struct Case {
    /// index into the 11 valid policy / mode pairs
    pub pair: u8,
    pub ops: Vec<Op>,
    /// after the schedule: 0 nothing; 1 / 2 a message to the server / client secured with keys of a token that was never
    /// issued; 3 / 4 a message to the server / client secured with the current keys that names a token id that was never issued;
    /// 5 the client reconnects (clear_security_token, new connection, new Issue) and a response recorded on the old connection
    /// is replayed to it
    pub forge: u8,
}

fn op() -> impl Strategy<Value = Op> {
    prop_oneof![
        5 => Just(Op::CSend(true)),
        2 => Just(Op::CSend(false)),
        2 => Just(Op::CFlush),
        3 => Just(Op::CRenewBegin),
        6 => Just(Op::SRecv),
        6 => Just(Op::SWrite),
        6 => Just(Op::CRecv),
        3 => Just(Op::CRenewEnd),
    ]
}

pub fn case() -> impl Strategy<Value = Case> {
    (0u8..11, prop::collection::vec(op(), 4..40), prop_oneof![3 => Just(0u8), 1 => 1u8..5, 1 => Just(5u8)]).prop_map(|(pair, ops, forge)| Case { pair, ops, forge })
}

#[derive(Clone, Debug, PartialEq)]
enum Kind {
    Msg,
    OpnRequest,
    OpnResponse,
}

struct Wire {
    bytes: Vec<u8>,
    kind: Kind,
    /// the sender's token generation when the chunk was secured (0 = the token of the Issue)
    gen: usize,
    /// the sender's token generation when the chunk was built (the header names that token)
    header_gen: usize,
    request_id: u32,
}

struct World {
    policy: SecurityPolicy,
    mode: MessageSecurityMode,
    server: TcpTransport,
    ssc: Arc<RwLock<SecureChannel>>,
    s_seq: u32,
    s_pending: VecDeque<(u32, SupportedMessage)>,
    s_gen: usize,
    /// highest generation of a message the server has received from the client
    s_seen: usize,
    ch: AsyncSecureChannel,
    csc: Arc<RwLock<SecureChannel>>,
    t: VerifTransport,
    sb: SendBuffer,
    /// chunks built by the client but not yet secured: (kind, header generation, request id)
    c_built: VecDeque<(Kind, usize, u32)>,
    c_gen: usize,
    c_seen: usize,
    c_renew_outstanding: bool,
    c_opn_response: Option<SupportedMessage>,
    callbacks: Vec<(u32, tokio::sync::oneshot::Receiver<Result<SupportedMessage, StatusCode>>, Kind)>,
    c2s: VecDeque<Wire>,
    s2c: VecDeque<Wire>,
    /// the token ids the server has issued, by generation
    issued: Vec<u32>,
    /// chunks the client has built so far (each message is one chunk)
    c_built_total: u32,
    last_error: Option<StatusCode>,
}

/// the token id in the symmetric security header of a MSG chunk (bytes 12..16, never encrypted)
fn wire_token(bytes: &[u8]) -> Option<u32> {
    if bytes.len() >= 16 && &bytes[..3] == b"MSG" {
        Some(u32::from_le_bytes([bytes[12], bytes[13], bytes[14], bytes[15]]))
    } else {
        None
    }
}

fn far() -> std::time::Instant {
    std::time::Instant::now() + std::time::Duration::from_secs(3600)
}

fn setup_failure(what: &str) -> ! {
    harness_error(&format!("C14 fixture: {}", what))
}

impl World {
    fn new(pair: u8) -> World {
        let (policy, mode) = fixtures::policy_mode(pair as usize);
        let server_arc = srv::worker_server(false);
        let mut server = server_arc.new_transport();
        let (r, _) = server.verif_process_hello(srv::Peer::hello(), 65535, 65535);
        if r.is_err() {
            setup_failure("hello rejected");
        }
        let ssc = server.verif_secure_channel();
        let server_cert = fixtures::load_cert(srv::SERVER_KEY);
        let policy_uri = policy.to_str();
        let mut endpoint: EndpointDescription = (srv::ENDPOINT_URL, policy_uri, mode, UserTokenPolicy::anonymous()).into();
        endpoint.server_certificate = ByteString::from(server_cert.to_der().unwrap_or_default());
        let info = SessionInfo { endpoint, user_identity_token: IdentityToken::Anonymous, preferred_locales: Vec::new() };
        let ch = AsyncSecureChannel::verif_new(fixtures::cert_store(), info, opcua::types::DecodingOptions::default(), policy, mode);
        let csc = ch.verif_secure_channel();
        {
            let mut c = csc.write();
            if policy != SecurityPolicy::None {
                c.set_cert(Some(fixtures::load_cert(CLIENT_KEY)));
                c.set_private_key(Some(fixtures::load_key(CLIENT_KEY)));
                c.set_remote_cert(Some(server_cert));
            }
        }
        let t = VerifTransport::new(csc.clone(), 50, 20, 64);
        let sb = SendBuffer::new(65535, 0, 0);
        let mut w = World {
            policy,
            mode,
            server,
            ssc,
            s_seq: 1,
            s_pending: VecDeque::new(),
            s_gen: 0,
            s_seen: 0,
            ch,
            csc,
            t,
            sb,
            c_built: VecDeque::new(),
            c_gen: 0,
            c_seen: 0,
            c_renew_outstanding: false,
            c_opn_response: None,
            callbacks: Vec::new(),
            c2s: VecDeque::new(),
            s2c: VecDeque::new(),
            issued: Vec::new(),
            c_built_total: 0,
            last_error: None,
        };
        w.issue();
        w
    }

    /// the Issue, through the same code as everything after it
    fn issue(&mut self) {
        self.c_open(SecurityTokenRequestType::Issue);
        self.c_flush();
        if !matches!(self.s_recv(), Some(true)) {
            setup_failure(&format!("the server rejected the OpenSecureChannel(Issue) with {:?} ({:?}/{:?})", self.last_error, self.policy, self.mode));
        }
        self.s_write();
        if !matches!(self.c_recv(), Some(true)) {
            setup_failure("the client rejected the OpenSecureChannel response of the Issue");
        }
        if self.c_renew_end() != Some(true) {
            setup_failure("the client could not finish the Issue");
        }
        self.c_gen = 0;
        self.s_gen = 0;
        self.c_seen = 0;
        self.s_seen = 0;
    }

    /// What the client does when its connection is gone: the same channel object is cleared (`clear_security_token`, as
    /// AsyncSecureChannel::connect does), a new connection is made - here a new server transport - and a token is issued on it.
    fn reconnect(&mut self) {
        let server_arc = srv::worker_server(false);
        self.server = server_arc.new_transport();
        let (r, _) = self.server.verif_process_hello(srv::Peer::hello(), 65535, 65535);
        if r.is_err() {
            setup_failure("hello rejected on the second connection");
        }
        self.ssc = self.server.verif_secure_channel();
        self.csc.write().clear_security_token();
        self.t = VerifTransport::new(self.csc.clone(), 50, 20, 64);
        self.sb = SendBuffer::new(65535, 0, 0);
        self.s_seq = 1;
        self.s_pending.clear();
        self.c_built.clear();
        self.c_built_total = 0;
        self.callbacks.clear();
        self.c2s.clear();
        self.s2c.clear();
        self.c_renew_outstanding = false;
        self.c_opn_response = None;
        self.issued.clear();
        self.issue();
    }

    fn c_open(&mut self, ty: SecurityTokenRequestType) {
        let msg = self.ch.verif_begin_issue_or_renew(ty);
        self.c_submit(msg, Kind::OpnRequest);
        self.c_renew_outstanding = true;
    }

    /// submit + the transport loop's "take the next outgoing message" (builds the chunk with the current token id)
    fn c_submit(&mut self, msg: SupportedMessage, kind: Kind) -> bool {
        let Some(rx) = self.t.submit(msg, far()) else { return false };
        match self.t.pump(&mut self.sb) {
            Some((m, id)) => {
                {
                    // what TcpTransport::poll_inner does with the message it took
                    let sc = self.csc.read();
                    if self.sb.write(id, m, &sc).is_err() {
                        setup_failure("client send buffer refused a message");
                    }
                }
                self.callbacks.push((id, rx, kind.clone()));
                self.c_built.push_back((kind, self.c_gen, id));
                self.c_built_total += 1;
                true
            }
            None => false,
        }
    }

    /// secure the oldest built chunk and put it on the wire
    fn c_flush(&mut self) -> bool {
        let Some((kind, header_gen, request_id)) = self.c_built.pop_front() else { return false };
        {
            let sc = self.csc.read();
            if self.sb.encode_next_chunk(&sc).is_err() {
                setup_failure("client send buffer refused to secure a chunk");
            }
        }
        let mut bytes: Vec<u8> = Vec::new();
        while self.sb.can_read() {
            if block_on(self.sb.read_into_async(&mut bytes)).is_err() {
                setup_failure("client send buffer read failed");
            }
        }
        if std::env::var_os("VERIF_TRACE").is_some() {
            eprintln!("c_flush {:?} {} bytes {:02x?}", kind, bytes.len(), &bytes[..bytes.len().min(48)]);
        }
        self.c2s.push_back(Wire { bytes, kind, gen: self.c_gen, header_gen, request_id });
        true
    }

    /// Some(accepted) if there was something to read
    fn s_recv(&mut self) -> Option<bool> {
        let w = self.c2s.pop_front()?;
        let (r, out) = self.server.verif_process_chunk(MessageChunk { data: w.bytes.clone() });
        let accepted = r.is_ok();
        self.last_error = r.err();
        if accepted {
            for (id, m) in out {
                if let SupportedMessage::OpenSecureChannelResponse(ref o) = m {
                    if o.response_header.service_result.is_good() {
                        self.issued.push(o.security_token.token_id);
                        if self.issued.len() > 1 {
                            self.s_gen += 1;
                        }
                    }
                }
                self.s_pending.push_back((id, m));
            }
        }
        Some(accepted)
    }

    fn s_write(&mut self) -> bool {
        let Some((id, m)) = self.s_pending.pop_front() else { return false };
        let kind = if matches!(m, SupportedMessage::OpenSecureChannelResponse(_)) { Kind::OpnResponse } else { Kind::Msg };
        let sc = self.ssc.read();
        let chunks = Chunker::encode(self.s_seq, id, 0, 0, &sc, &m).unwrap_or_else(|e| setup_failure(&format!("server encode: {}", e)));
        self.s_seq += chunks.len() as u32;
        for c in chunks {
            let mut buf = vec![0u8; c.data.len() + 4096];
            let n = sc.apply_security(&c, &mut buf).unwrap_or_else(|e| setup_failure(&format!("server apply_security: {}", e)));
            buf.truncate(n);
            self.s2c.push_back(Wire { bytes: buf, kind: kind.clone(), gen: self.s_gen, header_gen: self.s_gen, request_id: id });
        }
        true
    }

    fn c_recv(&mut self) -> Option<bool> {
        let w = self.s2c.pop_front()?;
        let r = self.t.handle_incoming_message(Message::Chunk(MessageChunk { data: w.bytes.clone() }));
        let accepted = r.is_ok();
        if accepted {
            let mut k = 0;
            while k < self.callbacks.len() {
                match self.callbacks[k].1.try_recv() {
                    Ok(Ok(m)) => {
                        if self.callbacks[k].2 == Kind::OpnRequest {
                            self.c_opn_response = Some(m);
                        }
                        self.callbacks.remove(k);
                    }
                    Ok(Err(_)) => {
                        self.callbacks.remove(k);
                    }
                    Err(_) => k += 1,
                }
            }
        }
        Some(accepted)
    }

    fn c_renew_end(&mut self) -> Option<bool> {
        let m = self.c_opn_response.take()?;
        self.c_renew_outstanding = false;
        let good = matches!(&m, SupportedMessage::OpenSecureChannelResponse(o) if o.response_header.service_result.is_good());
        let r = self.ch.verif_end_issue_or_renew(m);
        if r.is_ok() && good {
            self.c_gen += 1;
        }
        Some(r.is_ok())
    }
}

fn request() -> SupportedMessage {
    GetEndpointsRequest { request_header: RequestHeader::dummy(), endpoint_url: UAString::from(srv::ENDPOINT_URL), locale_ids: None, profile_uris: None }.into()
}

/// A message of the given direction secured by a channel pair that shares nothing with the real one but the certificates
/// (keys of a token that was never issued), or by a copy of the real sender's keys that names a token id never issued.
fn forged(w: &World, to_server: bool, current_keys: bool) -> Vec<u8> {
    let real = if to_server { w.csc.read() } else { w.ssc.read() };
    let (ck, sk) = (CLIENT_KEY, srv::SERVER_KEY);
    let (cn, sn): (Vec<u8>, Vec<u8>) = if current_keys {
        if to_server {
            (real.local_nonce().to_vec(), real.remote_nonce().to_vec())
        } else {
            (real.remote_nonce().to_vec(), real.local_nonce().to_vec())
        }
    } else {
        (fixtures::nonce_for(w.policy, 201), fixtures::nonce_for(w.policy, 77))
    };
    let (mut c, mut s) = fixtures::channel_pair(w.policy, w.mode, ck, sk, &cn, &sn);
    let bogus_token = w.issued.iter().max().copied().unwrap_or(1) + 1000;
    for ch in [&mut c, &mut s] {
        ch.set_secure_channel_id(real.secure_channel_id());
        ch.set_token_id(bogus_token);
    }
    let sender = if to_server { &c } else { &s };
    let (seq, id, msg): (u32, u32, SupportedMessage) = if to_server {
        (w.c_seq_guess(), 4242, request())
    } else {
        (w.s_seq, 4242, ServiceFault::new(&RequestHeader::dummy(), StatusCode::BadNothingToDo).into())
    };
    let chunks = Chunker::encode(seq, id, 0, 0, sender, &msg).unwrap_or_else(|e| setup_failure(&format!("forge encode: {}", e)));
    let mut buf = vec![0u8; chunks[0].data.len() + 4096];
    let n = sender.apply_security(&chunks[0], &mut buf).unwrap_or_else(|e| setup_failure(&format!("forge apply_security: {}", e)));
    buf.truncate(n);
    buf
}

impl World {
    /// generation of the token a chunk on the wire names (None for OPN chunks and for token ids the server never issued)
    fn wire_gen(&self, bytes: &[u8]) -> Option<usize> {
        let t = wire_token(bytes)?;
        self.issued.iter().position(|x| *x == t)
    }

    /// the next sequence number the client would use
    fn c_seq_guess(&self) -> u32 {
        self.c_built_total + 1
    }
}

fn run(ctx: &Ctx, c: &Case, supported_only: bool) -> PResult {
    in_runtime(|| run_inner(ctx, c, supported_only))
}

fn run_inner(ctx: &Ctx, c: &Case, supported_only: bool) -> PResult {
    let mut w = ctx.guard(|| World::new(c.pair))?;
    let secure = w.policy != SecurityPolicy::None;
    ctx.class(&format!("{:?}/{:?}", w.policy, w.mode));
    let mut sent = 0usize;
    let mut renewals = 0usize;
    let mut across = false;
    let mut broken = false;
    for (i, op) in c.ops.iter().enumerate() {
        if broken {
            break;
        }
        match op {
            Op::CSend(flush) => {
                if sent >= 6 {
                    continue;
                }
                if supported_only && (w.c_renew_outstanding || !*flush) {
                    // the client the code supports sends nothing between the renew request and the end of the renewal
                    ctx.excluded();
                    continue;
                }
                if ctx.guard(|| w.c_submit(request(), Kind::Msg))? {
                    sent += 1;
                    if *flush {
                        ctx.guard(|| w.c_flush())?;
                    }
                }
            }
            Op::CFlush => {
                ctx.guard(|| w.c_flush())?;
            }
            Op::CRenewBegin => {
                if w.c_renew_outstanding || renewals >= 2 || w.c_opn_response.is_some() {
                    continue;
                }
                if supported_only && !w.c_built.is_empty() {
                    ctx.excluded();
                    continue;
                }
                renewals += 1;
                ctx.guard(|| {
                    w.c_open(SecurityTokenRequestType::Renew);
                    w.c_flush()
                })?;
            }
            Op::SRecv => {
                let Some(head_kind) = w.c2s.front().map(|h| h.kind.clone()) else { continue };
                if supported_only && head_kind == Kind::OpnRequest && !w.s_pending.is_empty() {
                    // the server the code supports has written every response before it switches keys
                    while ctx.guard(|| w.s_write())? {}
                    ctx.class("responses_flushed_before_renew");
                }
                let head = w.c2s.front().unwrap();
                let named = w.wire_gen(&head.bytes);
                let (kind, gen, header_gen, id) = (head.kind.clone(), named.unwrap_or(head.gen), head.header_gen, head.request_id);
                if head.kind == Kind::Msg && named.is_none() {
                    return ctx.fail("client-names-unknown-token", format!("step {}: the client secured message {} under token id {:?}, which the server never issued ({:?})", i, id, wire_token(&head.bytes), w.issued));
                }
                let receiver_gen = w.s_gen;
                let seen = w.s_seen;
                let accepted = ctx.guard(|| w.s_recv())?.unwrap_or(false);
                if gen != receiver_gen {
                    across = true;
                }
                judge_delivery(ctx, i, "server", &kind, gen, header_gen, receiver_gen, seen, accepted, secure, id)?;
                w.s_seen = w.s_seen.max(gen);
                if !accepted {
                    broken = true;
                }
            }
            Op::SWrite => {
                ctx.guard(|| w.s_write())?;
            }
            Op::CRecv => {
                if w.s2c.is_empty() {
                    continue;
                }
                if supported_only && w.c_opn_response.is_some() {
                    // the client the code supports finishes the renewal before it reads on
                    ctx.guard(|| w.c_renew_end())?;
                }
                let head = w.s2c.front().unwrap();
                let named = w.wire_gen(&head.bytes);
                let (kind, gen, header_gen, id) = (head.kind.clone(), named.unwrap_or(head.gen), head.header_gen, head.request_id);
                if head.kind == Kind::Msg && named.is_none() {
                    return ctx.fail("server-names-unknown-token", format!("step {}: the server secured message {} under token id {:?}, which it never issued ({:?})", i, id, wire_token(&head.bytes), w.issued));
                }
                let receiver_gen = w.c_gen;
                let seen = w.c_seen;
                let accepted = ctx.guard(|| w.c_recv())?.unwrap_or(false);
                if gen != receiver_gen {
                    across = true;
                }
                judge_delivery(ctx, i, "client", &kind, gen, header_gen, receiver_gen, seen, accepted, secure, id)?;
                w.c_seen = w.c_seen.max(gen);
                if !accepted {
                    broken = true;
                }
            }
            Op::CRenewEnd => match ctx.guard(|| w.c_renew_end())? {
                Some(false) => return ctx.fail("renew/end-failed", format!("step {}: end_issue_or_renew_secure_channel refused the server's OpenSecureChannel response", i)),
                _ => {}
            },
        }
    }
    if renewals > 0 {
        ctx.class("with_renewal");
    }
    if across {
        ctx.class("message_in_flight_across_a_renewal");
        ctx.nontrivial();
    } else if renewals > 0 && sent > 0 {
        ctx.nontrivial();
    }
    if broken {
        ctx.class("channel_broken_by_an_allowed_rejection");
        return Ok(());
    }
    if c.forge == 0 {
        return Ok(());
    }
    if c.forge == 5 {
        if !secure {
            // nothing authenticates a chunk without a security policy
            return Ok(());
        }
        // everything still under way is delivered, renewals are finished
        for _ in 0..60 {
            let mut progress = ctx.guard(|| w.c_flush())?;
            progress |= ctx.guard(|| w.s_recv())?.is_some();
            progress |= ctx.guard(|| w.s_write())?;
            progress |= ctx.guard(|| w.c_recv())?.is_some();
            progress |= ctx.guard(|| w.c_renew_end())?.is_some();
            if !progress {
                break;
            }
        }
        // a response of the old connection, as an eavesdropper records it
        ctx.guard(|| {
            w.c_submit(request(), Kind::Msg);
            w.c_flush();
            w.s_recv();
            w.s_write()
        })?;
        let Some(old) = w.s2c.back().filter(|x| x.kind == Kind::Msg).map(|x| x.bytes.clone()) else { return Ok(()) };
        let old_token = wire_token(&old);
        let _ = ctx.guard(|| w.c_recv())?;
        ctx.guard(|| w.reconnect())?;
        ctx.class("reconnect_then_replay_of_an_old_response");
        if renewals > 0 {
            ctx.class("reconnect_after_a_renewal");
        }
        ctx.nontrivial();
        let accepted = ctx.guard(|| w.t.handle_incoming_message(Message::Chunk(MessageChunk { data: old.clone() })))?.is_ok();
        if accepted {
            return ctx.fail(
                "replayed-chunk-of-an-earlier-connection-accepted/client",
                format!("after clear_security_token and a new Issue (token ids {:?}) the client accepted a response secured on the previous connection under token id {:?} ({:?}/{:?})", w.issued, old_token, w.policy, w.mode),
            );
        }
        return Ok(());
    }
    let to_server = c.forge % 2 == 1;
    let current_keys = c.forge >= 3;
    let bytes = ctx.guard(|| forged(&w, to_server, current_keys))?;
    let accepted = if to_server {
        let (r, _) = ctx.guard(|| w.server.verif_process_chunk(MessageChunk { data: bytes.clone() }))?;
        r.is_ok()
    } else {
        ctx.guard(|| w.t.handle_incoming_message(Message::Chunk(MessageChunk { data: bytes.clone() })))?.is_ok()
    };
    ctx.class(if current_keys { "forged_token_id_with_current_keys" } else { "forged_keys_and_token_id" });
    ctx.nontrivial();
    if accepted {
        let who = if to_server { "server" } else { "client" };
        let how = if !secure {
            "policy-none"
        } else if current_keys {
            "current-keys"
        } else {
            "foreign-keys"
        };
        return ctx.fail(
            format!("never-issued-token-accepted/{}/{}", who, how),
            format!("the {} accepted a message whose security header names token id {} although the server only ever issued {:?} ({:?}/{:?})", who, w.issued.iter().max().copied().unwrap_or(1) + 1000, w.issued, w.policy, w.mode),
        );
    }
    Ok(())
}

#[allow(clippy::too_many_arguments)]
fn judge_delivery(ctx: &Ctx, step: usize, receiver: &str, kind: &Kind, gen: usize, header_gen: usize, receiver_gen: usize, seen: usize, accepted: bool, secure: bool, id: u32) -> PResult {
    if accepted {
        return Ok(());
    }
    if *kind != Kind::Msg {
        return ctx.fail(format!("open-secure-channel-rejected/{}/{:?}", receiver, kind), format!("step {}: the {} rejected the {:?} of the renewal", step, receiver, kind));
    }
    if gen < seen {
        // the receiver has already received a message under a newer token: it may reject
        ctx.class("rejected_after_newer_token_seen");
        return Ok(());
    }
    let shape = if gen < receiver_gen {
        "old-token-after-switch"
    } else if gen > receiver_gen {
        "new-token-before-switch"
    } else {
        "same-token"
    };
    let _ = secure;
    ctx.fail(
        format!("rejected/{}/{}", receiver, shape),
        format!(
            "step {}: the {} rejected message {} that its peer secured under the token of generation {} (the chunk was built at generation {}); the {} is at generation {} and the newest generation it had received before is {}",
            step, receiver, id, gen, header_gen, receiver, receiver_gen, seen
        ),
    )
}

pub fn def() -> PropDef {
    PropDef {
        id: "C14",
        rule: "schedules of 4..40 steps over {client builds a request chunk (optionally securing it at once), client secures its oldest built chunk, real begin_issue_or_renew_secure_channel(Renew), server reads a chunk (real TcpTransport::process_chunk), server writer secures the oldest queued response with what the channel holds at that moment, client reads a chunk (real TransportState), real end_issue_or_renew_secure_channel}, FIFO wires in both directions, the 11 policy/mode pairs, up to 6 requests and 2 renewals after a real Issue; optionally followed by a forged message to either side (foreign keys, or the current keys with a token id that was never issued), or by a reconnect of the client (clear_security_token, new connection, new Issue) and the replay of a response recorded on the old connection; oracle: an OPN request/response is accepted; a message is accepted unless the receiver had already received a message under a newer token than the one it was secured under; a forged or replayed message is rejected; part supported_schedules keeps to the schedules the single key slot can serve (the client sends nothing during a renewal, the server writes every queued response before it handles the Renew, the client ends the renewal before it reads on) so that the search continues behind the known finding; non-trivial = a message delivered to a receiver at another token generation, or a forged message, or a renewal with messages; distinct = distinct case",
        assumptions: &["single-chunk messages; wires are FIFO (TCP)", "the server's writer is imitated by Chunker::encode + apply_security on the transport's own SecureChannel at the scheduled moment, which is what MessageWriter does", "token lifetime / expiry is not part of the schedules"],
        abort_possible: false,
        parts: |tier| {
            vec![
                part("any_schedule", tier.pick(500, 20000), case(), |ctx, c| run(ctx, c, false)),
                part("supported_schedules", tier.pick(500, 20000), case(), |ctx, c| run(ctx, c, true)),
            ]
        },
    }
}

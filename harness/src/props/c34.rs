//! C34 — Node management results describe what actually happened.
use crate::engine::*;
use crate::srv::{self, Conn};
use opcua::core::supported_message::SupportedMessage;
use opcua::server::prelude::*;
use proptest::prelude::*;
use serde::{Deserialize, Serialize};
use std::cell::Cell;

#[derive(Clone, Debug, Serialize, Deserialize, PartialEq)]
pub enum Op {
    /// id kind (0 null = server assigned, 1 fresh explicit string id, 2 id of an existing node, 3.. the numeric id the server
    /// will assign next + (kind - 3)), parent (index; 250.. = missing node, 251 = Objects folder), reference type (0 Organizes,
    /// 1 HasComponent, 2 HasProperty, 3 a non-standard id), browse name index (0..5, collisions intended), node class /
    /// attributes (0 Object, 1 Variable, 2 Object class with Variable attributes), type definition valid
    AddNode(u8, u8, u8, u8, u8, bool),
    /// source, target, reference type, is_forward, claimed target class correct
    AddRef(u8, u8, u8, bool, bool),
    DelNode(u8, bool),
    /// source, target, reference type, is_forward, bidirectional
    DelRef(u8, u8, u8, bool, bool),
}

fn op() -> impl Strategy<Value = Op> {
    prop_oneof![
        8 => (prop_oneof![4 => Just(0u8), 2 => Just(1u8), 1 => Just(2u8), 3 => 3u8..6], prop_oneof![6 => 0u8..8, 1 => Just(250u8), 2 => Just(251u8)], prop_oneof![4 => 0u8..3, 1 => Just(3u8)], 0u8..6, prop_oneof![4 => Just(0u8), 2 => Just(1u8), 1 => Just(2u8)], proptest::bool::weighted(0.9))
            .prop_map(|(a, b, c, d, e, f)| Op::AddNode(a, b, c, d, e, f)),
        3 => (0u8..8, 0u8..8, 0u8..4, any::<bool>(), proptest::bool::weighted(0.85)).prop_map(|(a, b, c, d, e)| Op::AddRef(a, b, c, d, e)),
        2 => (0u8..8, any::<bool>()).prop_map(|(a, b)| Op::DelNode(a, b)),
        2 => (0u8..8, 0u8..8, 0u8..4, any::<bool>(), any::<bool>()).prop_map(|(a, b, c, d, e)| Op::DelRef(a, b, c, d, e)),
    ]
}

thread_local! {
    static CASE_NO: Cell<u64> = const { Cell::new(0) };
}

fn ref_type(k: u8) -> NodeId {
    match k % 4 {
        0 => ReferenceTypeId::Organizes.into(),
        1 => ReferenceTypeId::HasComponent.into(),
        2 => ReferenceTypeId::HasProperty.into(),
        _ => NodeId::new(1, "c34-not-a-reference-type"),
    }
}

fn attributes(kind: u8, name: &str) -> ExtensionObject {
    if kind % 3 == 0 {
        let m = AttributesMask::DISPLAY_NAME | AttributesMask::DESCRIPTION | AttributesMask::WRITE_MASK | AttributesMask::USER_WRITE_MASK | AttributesMask::EVENT_NOTIFIER;
        ExtensionObject::from_encodable(
            ObjectId::ObjectAttributes_Encoding_DefaultBinary,
            &ObjectAttributes { specified_attributes: m.bits(), display_name: LocalizedText::from(name), description: LocalizedText::new("", "d"), write_mask: 0, user_write_mask: 0, event_notifier: 0 },
        )
    } else {
        let m = AttributesMask::DISPLAY_NAME | AttributesMask::ACCESS_LEVEL | AttributesMask::USER_ACCESS_LEVEL | AttributesMask::DATA_TYPE | AttributesMask::HISTORIZING | AttributesMask::VALUE | AttributesMask::VALUE_RANK;
        ExtensionObject::from_encodable(
            ObjectId::VariableAttributes_Encoding_DefaultBinary,
            &VariableAttributes {
                specified_attributes: m.bits(),
                display_name: LocalizedText::from(name),
                description: LocalizedText::null(),
                write_mask: 0,
                user_write_mask: 0,
                value: Variant::from(1i32),
                data_type: DataTypeId::Int32.into(),
                value_rank: -1,
                array_dimensions: None,
                access_level: 1,
                user_access_level: 1,
                minimum_sampling_interval: 0.0,
                historizing: false,
            },
        )
    }
}

type Snap = Vec<(String, bool, String, Vec<String>, Vec<String>)>;

fn snapshot(server: &Server, ids: &[NodeId]) -> Snap {
    let a = server.address_space();
    let a = a.read();
    ids.iter()
        .map(|id| {
            let exists = a.node_exists(id);
            let name = a.find_node(id).map(|n| format!("{:?}", n.as_node().browse_name())).unwrap_or_default();
            let mut f: Vec<String> = a.find_references(id, None::<(NodeId, bool)>).unwrap_or_default().iter().map(|r| format!("{}->{}", r.reference_type, r.target_node)).collect();
            let mut i: Vec<String> = a.find_inverse_references(id, None::<(NodeId, bool)>).unwrap_or_default().iter().map(|r| format!("{}<-{}", r.reference_type, r.target_node)).collect();
            f.sort();
            i.sort();
            (id.to_string(), exists, name, f, i)
        })
        .collect()
}

fn run(ctx: &Ctx, ops: &Vec<Op>) -> PResult {
    let server = srv::worker_server(true);
    let mut conn = Conn::open(server.clone());
    let token = conn.session();
    let case_no = CASE_NO.with(|n| {
        n.set(n.get() + 1);
        n.get()
    });
    let fresh = |k: u64| NodeId::new(1, format!("c34-{}-{}-{}", std::process::id(), case_no, k));
    let folder = fresh(0);
    {
        let a = server.address_space();
        let mut a = a.write();
        ObjectBuilder::new(&folder, format!("c34f{}", case_no).as_str(), "f").organized_by(ObjectId::ObjectsFolder).insert(&mut a);
    }
    // every node id the case has ever dealt with (index 0 = the case folder)
    let mut known: Vec<NodeId> = vec![folder.clone()];
    let mut last_auto: Option<u32> = None;
    let mut fresh_counter = 0u64;
    let mut name_counter = 0u32;
    let mut interesting = false;
    let ns = {
        let a = server.address_space();
        let a = a.read();
        a.internal_namespace()
    };

    let verdict = (|| -> PResult {
        for (step, op) in ops.iter().enumerate() {
            match op {
                Op::AddNode(id_kind, parent, rt, name, class, typedef_ok) => {
                    fresh_counter += 1;
                    let requested: ExpandedNodeId = match id_kind {
                        0 => ExpandedNodeId::null(),
                        1 => fresh(1000 + fresh_counter).into(),
                        2 => known[*parent as usize % known.len()].clone().into(),
                        k => match last_auto {
                            Some(n) => NodeId::new(ns, n.wrapping_add(1 + (*k as u32 - 3))).into(),
                            None => ExpandedNodeId::null(),
                        },
                    };
                    let parent_id: NodeId = match parent {
                        250 => fresh(999_999),
                        251 => ObjectId::ObjectsFolder.into(),
                        p => known[*p as usize % known.len()].clone(),
                    };
                    name_counter += 1;
                    // browse names: a small set so that duplicates under the same parent occur, plus unique ones
                    let bname = if *name < 3 { format!("dup{}", name) } else { format!("n{}x{}", case_no, name_counter) };
                    let node_class = if *class == 1 { NodeClass::Variable } else { NodeClass::Object };
                    let type_definition: ExpandedNodeId = if !*typedef_ok {
                        NodeId::new(0, 1u32).into()
                    } else if node_class == NodeClass::Variable {
                        VariableTypeId::BaseDataVariableType.into()
                    } else {
                        ObjectTypeId::BaseObjectType.into()
                    };
                    let item = AddNodesItem {
                        parent_node_id: parent_id.clone().into(),
                        reference_type_id: ref_type(*rt),
                        requested_new_node_id: requested.clone(),
                        browse_name: QualifiedName::new(0, bname.as_str()),
                        node_class,
                        node_attributes: attributes(*class, &bname),
                        type_definition,
                    };
                    // candidates for a server assigned id: the next few numeric ids
                    let mut watch = known.clone();
                    if !requested.is_null() {
                        watch.push(requested.node_id.clone());
                    }
                    if let Some(n) = last_auto {
                        for d in 1..8u32 {
                            watch.push(NodeId::new(ns, n.wrapping_add(d)));
                        }
                    }
                    watch.push(parent_id.clone());
                    let before = snapshot(&server, &watch);
                    let h = conn.header(&token);
                    let r = ctx.guard(|| conn.call(AddNodesRequest { request_header: h, nodes_to_add: Some(vec![item]) }))?;
                    let res = match r {
                        SupportedMessage::AddNodesResponse(r) => match r.results.and_then(|mut v| if v.is_empty() { None } else { Some(v.remove(0)) }) {
                            Some(x) => x,
                            None => return ctx.fail("add-nodes/no-result", format!("step {}", step)),
                        },
                        other => return ctx.fail("add-nodes/fault", format!("step {}: {:?}", step, srv::status_of(&other))),
                    };
                    let after = snapshot(&server, &watch);
                    if res.status_code.is_good() {
                        let id = res.added_node_id.clone();
                        if id.is_null() {
                            return ctx.fail("add-nodes/good-without-id", format!("step {}", step));
                        }
                        if requested.is_null() || *id_kind >= 3 && last_auto.is_none() {
                            ctx.class("server_assigned_id");
                            if let Identifier::Numeric(n) = id.identifier {
                                if id.namespace == ns {
                                    last_auto = Some(n);
                                }
                            }
                        } else if id != requested.node_id {
                            return ctx.fail("add-nodes/other-id-than-requested", format!("step {}: requested {}, got {}", step, requested.node_id, id));
                        }
                        // the id must be new: it did not exist before the call
                        let existed_before = before.iter().any(|s| s.0 == id.to_string() && s.1);
                        if existed_before {
                            if requested.is_null() {
                                interesting = true;
                            }
                            return ctx.fail(
                                if requested.is_null() { "add-nodes/assigned-id-collides" } else { "add-nodes/good-for-existing-id" },
                                format!("step {}: AddNodes answered Good with node id {}, but a node with that id existed before the request (requested id {:?})", step, id, requested.node_id),
                            );
                        }
                        let a = server.address_space();
                        let a = a.read();
                        if !a.node_exists(&id) {
                            return ctx.fail("add-nodes/good-but-no-node", format!("step {}: Good, id {} does not exist", step, id));
                        }
                        if !a.has_reference(&parent_id, &id, ref_type(*rt)) {
                            return ctx.fail("add-nodes/good-but-no-parent-reference", format!("step {}: Good, but {} -{}-> {} is missing", step, parent_id, ref_type(*rt), id));
                        }
                        if a.find_node(&id).map(|n| n.as_node().browse_name()) != Some(QualifiedName::new(0, bname.as_str())) {
                            return ctx.fail("add-nodes/good-but-other-node", format!("step {}: node {} does not carry the requested browse name {}", step, id, bname));
                        }
                        if requested.is_null() && last_auto.is_some() && *id_kind == 0 {
                            // did the assignment have to step over an occupied id?
                        }
                        if !known.contains(&id) {
                            known.push(id);
                        }
                    } else {
                        ctx.class("add_nodes_refused");
                        if before != after {
                            return ctx.fail("add-nodes/bad-but-changed", format!("step {}: AddNodes answered {} but the address space changed: {:?} -> {:?}", step, res.status_code, before, after));
                        }
                        if !res.added_node_id.is_null() {
                            return ctx.fail("add-nodes/bad-with-id", format!("step {}", step));
                        }
                    }
                }
                Op::AddRef(s, t, rt, fwd, class_ok) => {
                    let src = known[*s as usize % known.len()].clone();
                    let dst = known[*t as usize % known.len()].clone();
                    if src == dst {
                        // a self reference is C33's subject (documented panic of insert_reference)
                        continue;
                    }
                    let class = {
                        let a = server.address_space();
                        let a = a.read();
                        a.find_node(&dst).map(|n| n.node_class()).unwrap_or(NodeClass::Object)
                    };
                    let claimed = if *class_ok { class } else if class == NodeClass::Object { NodeClass::Variable } else { NodeClass::Object };
                    let watch = known.clone();
                    let before = snapshot(&server, &watch);
                    let h = conn.header(&token);
                    let r = ctx.guard(|| {
                        conn.call(AddReferencesRequest {
                            request_header: h,
                            references_to_add: Some(vec![AddReferencesItem { source_node_id: src.clone(), reference_type_id: ref_type(*rt), is_forward: *fwd, target_server_uri: UAString::null(), target_node_id: dst.clone().into(), target_node_class: claimed }]),
                        })
                    })?;
                    let st = match r {
                        SupportedMessage::AddReferencesResponse(r) => r.results.and_then(|v| v.first().copied()).unwrap_or(StatusCode::BadUnexpectedError),
                        other => srv::status_of(&other),
                    };
                    let after = snapshot(&server, &watch);
                    if st.is_good() {
                        let a = server.address_space();
                        let a = a.read();
                        let (x, y) = if *fwd { (&src, &dst) } else { (&dst, &src) };
                        if !a.has_reference(x, y, ref_type(*rt)) {
                            return ctx.fail("add-references/good-but-missing", format!("step {}: {} -> {} not present", step, x, y));
                        }
                    } else if before != after {
                        return ctx.fail("add-references/bad-but-changed", format!("step {}: answered {} but the address space changed", step, st));
                    }
                }
                Op::DelNode(k, dtr) => {
                    if known.len() <= 1 {
                        continue;
                    }
                    let idx = 1 + (*k as usize % (known.len() - 1));
                    let id = known[idx].clone();
                    let watch = known.clone();
                    let before = snapshot(&server, &watch);
                    let h = conn.header(&token);
                    let r = ctx.guard(|| conn.call(DeleteNodesRequest { request_header: h, nodes_to_delete: Some(vec![DeleteNodesItem { node_id: id.clone(), delete_target_references: *dtr }]) }))?;
                    let st = match r {
                        SupportedMessage::DeleteNodesResponse(r) => r.results.and_then(|v| v.first().copied()).unwrap_or(StatusCode::BadUnexpectedError),
                        other => srv::status_of(&other),
                    };
                    let after = snapshot(&server, &watch);
                    if st.is_good() {
                        if server.address_space().read().node_exists(&id) {
                            return ctx.fail("delete-nodes/good-but-exists", format!("step {}: {}", step, id));
                        }
                    } else if before != after {
                        return ctx.fail("delete-nodes/bad-but-changed", format!("step {}: answered {} but the address space changed", step, st));
                    }
                }
                Op::DelRef(s, t, rt, fwd, bidir) => {
                    let src = known[*s as usize % known.len()].clone();
                    let dst = known[*t as usize % known.len()].clone();
                    let watch = known.clone();
                    let before = snapshot(&server, &watch);
                    let h = conn.header(&token);
                    let r = ctx.guard(|| {
                        conn.call(DeleteReferencesRequest {
                            request_header: h,
                            references_to_delete: Some(vec![DeleteReferencesItem { source_node_id: src.clone(), reference_type_id: ref_type(*rt), is_forward: *fwd, target_node_id: dst.clone().into(), delete_bidirectional: *bidir }]),
                        })
                    })?;
                    let st = match r {
                        SupportedMessage::DeleteReferencesResponse(r) => r.results.and_then(|v| v.first().copied()).unwrap_or(StatusCode::BadUnexpectedError),
                        other => srv::status_of(&other),
                    };
                    let after = snapshot(&server, &watch);
                    if st.is_good() {
                        let a = server.address_space();
                        let a = a.read();
                        let (x, y) = if *fwd { (&src, &dst) } else { (&dst, &src) };
                        if a.has_reference(x, y, ref_type(*rt)) {
                            return ctx.fail("delete-references/good-but-present", format!("step {}: {} -> {} still there", step, x, y));
                        }
                    } else if before != after {
                        return ctx.fail("delete-references/bad-but-changed", format!("step {}: answered {} but the address space changed", step, st));
                    }
                }
            }
        }
        Ok(())
    })();
    {
        let a = server.address_space();
        let mut a = a.write();
        for id in known.iter().rev() {
            a.delete(id, true);
        }
    }
    // a null-id AddNodes issued when the next numeric id is occupied
    let explicit_next = ops.iter().any(|o| matches!(o, Op::AddNode(k, ..) if *k >= 3));
    let auto_after = ops.iter().rposition(|o| matches!(o, Op::AddNode(0, ..))).unwrap_or(0) > ops.iter().position(|o| matches!(o, Op::AddNode(k, ..) if *k >= 3)).unwrap_or(usize::MAX);
    if interesting || (explicit_next && auto_after) {
        ctx.nontrivial();
    }
    verdict
}

pub fn def() -> PropDef {
    PropDef {
        id: "C34",
        rule: "histories of up to 25 AddNodes / AddReferences / DeleteNodes / DeleteReferences items through the real dispatcher on a session allowed to modify the address space, below a fresh folder: requested ids null (server assigned), fresh explicit, existing, or the numeric id the server will assign next (+0..2, learnt from earlier results); parents existing / missing / Objects; reference types Organizes / HasComponent / HasProperty / not a reference type; colliding and unique browse names; Object and Variable classes with matching and mismatching attributes, valid and invalid type definitions; oracle: snapshot (existence, browse name, forward and inverse references) of every node the case knows plus the candidate ids before and after each item: Good AddNodes => the returned id did not exist before, exists after with the requested browse name and parent reference; any Bad item => snapshots equal; Good AddReferences / DeleteNodes / DeleteReferences => the stated effect; non-trivial = a server-assigned AddNodes after an explicit add of the next numeric id; distinct = distinct history",
        assumptions: &["browse names are plain ASCII in namespace 0 and source != target (other shapes panic in add_node / insert_reference and belong to C33)", "the global numeric id counter is read back from results, never assumed"],
        abort_possible: false,
        parts: |tier| vec![part("node_management_history", tier.pick(1500, 30000), prop::collection::vec(op(), 1..25), run)],
    }
}

//! C09 — Secure-channel receive path is total on arbitrary peer bytes.
use crate::engine::*;
use crate::fixtures;
use crate::props::c07::payload_message;
use crate::props::c08::{opn_request, secure_one_info};
use opcua::core::comms::chunker::Chunker;
use opcua::core::comms::message_chunk::MessageChunk;
use opcua::core::comms::secure_channel::{Role, SecureChannel};
use opcua::core::comms::tcp_codec::Message;
use opcua::crypto::SecurityPolicy;
use opcua::types::*;
use proptest::prelude::*;
use serde::{Deserialize, Serialize};

#[derive(Clone, Debug, Serialize, Deserialize)]
pub enum Mutation {
    None,
    /// set the total length to 12 + n bytes (message_size patched)
    CutTo(u16),
    /// make the part after the headers r bytes longer than a multiple of the block (message_size patched)
    CipherResidue(u8, u8),
    /// overwrite one header field: 0 message type, 1 is_final, 2 message_size, 3 channel id, 4 token id / policy uri length, 5 cert length, 6 thumbprint length
    HeaderField(u8, u32),
    /// sender certificate: 0 null, 1 empty, 2 truncated DER, 3 garbage of the same length, 4 oversized length
    SenderCert(u8),
    /// receiver thumbprint: 0 null, 1 19 bytes, 2 21 bytes, 3 other 20 bytes
    Thumbprint(u8),
    /// set the last padding byte(s) before the signature and re-sign (symmetric, sender keys known)
    PaddingByte(u8, u8),
    FlipBits(Vec<(u16, u8)>),
    Raw(Vec<u8>),
}

#[derive(Clone, Debug, Serialize, Deserialize)]
pub struct Case {
    pub receiver_is_server: bool,
    pub pm: u8,
    pub keys_derived: bool,
    pub own_cert: bool,
    pub remote_cert: bool,
    pub asymmetric: bool,
    pub payload: u16,
    pub mutation: Mutation,
    /// also drive the bytes through the client transport state / server transport (their own indexing)
    pub via_transport: bool,
}

fn patch_size(b: &mut Vec<u8>) {
    if b.len() >= 8 {
        let n = (b.len() as u32).to_le_bytes();
        b[4..8].copy_from_slice(&n);
    }
}

fn build_receiver(c: &Case, policy: SecurityPolicy, mode: MessageSecurityMode, ck: &str, sk: &str, cn: &[u8], sn: &[u8]) -> SecureChannel {
    let (cl, sv) = fixtures::channel_pair(policy, mode, ck, sk, cn, sn);
    if c.keys_derived && c.own_cert && c.remote_cert {
        return if c.receiver_is_server { sv } else { cl };
    }
    // a receiver in an earlier / incomplete state
    let mut ch = fixtures::plain_channel(if c.receiver_is_server { Role::Server } else { Role::Client });
    ch.set_security_policy(policy);
    ch.set_security_mode(mode);
    ch.set_secure_channel_id(7);
    let (own, other) = if c.receiver_is_server { (sk, ck) } else { (ck, sk) };
    if policy != SecurityPolicy::None {
        if c.own_cert {
            ch.set_cert(Some(fixtures::load_cert(own)));
            ch.set_private_key(Some(fixtures::load_key(own)));
        }
        if c.remote_cert {
            ch.set_remote_cert(Some(fixtures::load_cert(other)));
        }
        if c.keys_derived {
            let (l, r) = if c.receiver_is_server { (sn, cn) } else { (cn, sn) };
            ch.set_local_nonce(l);
            ch.set_remote_nonce(r);
            ch.derive_keys();
        }
    }
    ch
}

fn check(ctx: &Ctx, c: &Case) -> PResult {
    let (policy, mode) = fixtures::policy_mode(c.pm as usize);
    let sha1 = matches!(policy, SecurityPolicy::Basic128Rsa15 | SecurityPolicy::Basic256);
    let (ck, sk) = if sha1 { ("rsa1024a", "rsa2048b") } else { ("rsa2048a", "rsa4096b") };
    let cn = fixtures::nonce_for(policy, 3);
    let sn = fixtures::nonce_for(policy, 77);
    let (client, server) = fixtures::channel_pair(policy, mode, ck, sk, &cn, &sn);
    let sender = if c.receiver_is_server { &client } else { &server };
    let asymmetric = c.asymmetric && policy != SecurityPolicy::None;
    let msg = if asymmetric {
        if c.receiver_is_server {
            opn_request(policy, mode)
        } else {
            OpenSecureChannelResponse {
                response_header: ResponseHeader::new_good(&RequestHeader::dummy()),
                server_protocol_version: 0,
                security_token: ChannelSecurityToken { channel_id: 7, token_id: 1, created_at: DateTime::from(1000i64), revised_lifetime: 1000 },
                server_nonce: ByteString::from(sn.clone()),
            }
            .into()
        }
    } else {
        payload_message(c.payload as usize % 2000)
    };
    let Ok((good, hdr_end)) = secure_one_info(sender, &msg, 1) else {
        return ctx.fail("setup", "cannot secure the base chunk");
    };
    let block = if asymmetric { if (c.receiver_is_server && sk.contains("4096")) || (!c.receiver_is_server && ck.contains("4096")) { 512 } else if (c.receiver_is_server && sk.contains("2048")) || (!c.receiver_is_server && ck.contains("2048")) { 256 } else { 128 } } else { 16 };
    let mut bytes = good.clone();
    let mname: &str;
    match &c.mutation {
        Mutation::None => mname = "none",
        Mutation::CutTo(n) => {
            bytes.truncate(12 + (*n as usize % (good.len().saturating_sub(11)).max(1)));
            patch_size(&mut bytes);
            mname = "cut";
        }
        Mutation::CipherResidue(r, blocks) => {
            let body = (*blocks as usize % 4) * block + (*r as usize % block);
            bytes.truncate((hdr_end + body).min(good.len()));
            while bytes.len() < hdr_end + body {
                bytes.push(0xA7);
            }
            patch_size(&mut bytes);
            mname = "cipher-residue";
        }
        Mutation::HeaderField(f, v) => {
            let vb = v.to_le_bytes();
            match f % 7 {
                0 => bytes[..3].copy_from_slice(&[b"MSG", b"OPN", b"CLO", b"HEL"][*v as usize % 4][..]),
                1 => bytes[3] = [b'F', b'C', b'A', b'X'][*v as usize % 4],
                2 => bytes[4..8].copy_from_slice(&vb),
                3 => bytes[8..12].copy_from_slice(&vb),
                4 => bytes[12..16].copy_from_slice(&vb),
                5 => {
                    // asymmetric: certificate length field follows the policy uri
                    if asymmetric {
                        let uri_len = u32::from_le_bytes([bytes[12], bytes[13], bytes[14], bytes[15]]) as usize;
                        let p = 16 + uri_len;
                        if p + 4 <= bytes.len() {
                            bytes[p..p + 4].copy_from_slice(&vb);
                        }
                    }
                }
                _ => {
                    if asymmetric && hdr_end >= 24 {
                        let p = hdr_end - 24;
                        bytes[p..p + 4].copy_from_slice(&vb);
                    }
                }
            }
            mname = "header-field";
        }
        Mutation::SenderCert(k) => {
            if !asymmetric {
                return Ok(());
            }
            // rebuild the header: 12 bytes, uri, cert, thumbprint
            let uri_len = u32::from_le_bytes([bytes[12], bytes[13], bytes[14], bytes[15]]) as usize;
            let cert_pos = 16 + uri_len;
            let cert_len = u32::from_le_bytes([bytes[cert_pos], bytes[cert_pos + 1], bytes[cert_pos + 2], bytes[cert_pos + 3]]) as usize;
            let cert = bytes[cert_pos + 4..cert_pos + 4 + cert_len].to_vec();
            let rest = bytes[cert_pos + 4 + cert_len..].to_vec();
            let mut nb = bytes[..cert_pos].to_vec();
            match k % 5 {
                0 => nb.extend((-1i32).to_le_bytes()),
                1 => nb.extend(0i32.to_le_bytes()),
                2 => {
                    nb.extend(((cert_len / 2) as i32).to_le_bytes());
                    nb.extend(&cert[..cert_len / 2]);
                }
                3 => {
                    nb.extend((cert_len as i32).to_le_bytes());
                    nb.extend(std::iter::repeat(0x30u8).take(cert_len));
                }
                _ => {
                    nb.extend(i32::MAX.to_le_bytes());
                    nb.extend(&cert);
                }
            }
            nb.extend(rest);
            bytes = nb;
            patch_size(&mut bytes);
            mname = "sender-certificate";
        }
        Mutation::Thumbprint(k) => {
            if !asymmetric || hdr_end < 24 {
                return Ok(());
            }
            let p = hdr_end - 24;
            let rest = bytes[hdr_end..].to_vec();
            let mut nb = bytes[..p].to_vec();
            match k % 4 {
                0 => nb.extend((-1i32).to_le_bytes()),
                1 => {
                    nb.extend(19i32.to_le_bytes());
                    nb.extend([1u8; 19]);
                }
                2 => {
                    nb.extend(21i32.to_le_bytes());
                    nb.extend([1u8; 21]);
                }
                _ => {
                    nb.extend(20i32.to_le_bytes());
                    nb.extend([9u8; 20]);
                }
            }
            nb.extend(rest);
            bytes = nb;
            patch_size(&mut bytes);
            mname = "thumbprint";
        }
        Mutation::PaddingByte(v, v2) => {
            // build a chunk whose padding bytes are bogus but whose signature is genuine: take the plain chunk,
            // append our own "padding" and let the sender sign/encrypt it through its public symmetric API
            if asymmetric || mode != MessageSecurityMode::SignAndEncrypt {
                return Ok(());
            }
            let Ok(chunks) = Chunker::encode(1, 9, 0, 0, sender, &msg) else { return Ok(()) };
            let mut data = chunks[0].data.clone();
            let sig = policy.symmetric_signature_size();
            // pad so that (len - 16 + sig) is a multiple of 16, with a bogus claimed padding length
            while (data.len() - 16 + 1 + sig) % 16 != 0 {
                data.push(*v2);
            }
            data.push(*v);
            data.extend(std::iter::repeat(0u8).take(sig));
            patch_size(&mut data);
            let total = data.len();
            let mut dst = vec![0u8; total + 64];
            let r = guarded(|| sender.symmetric_sign_and_encrypt(&data, 0..(total - sig), 16..total, &mut dst));
            match r {
                Ok(Ok(n)) => {
                    dst.truncate(n);
                    bytes = dst;
                }
                _ => return Ok(()),
            }
            mname = "bogus-padding-genuine-signature";
        }
        Mutation::FlipBits(v) => {
            for (p, b) in v {
                let i = (*p as usize * bytes.len()) >> 16;
                bytes[i] ^= 1 << (b % 8);
            }
            mname = "flip-bits";
        }
        Mutation::Raw(b) => {
            bytes = b.clone();
            mname = "raw";
        }
    }
    let mut recv = build_receiver(c, policy, mode, ck, sk, &cn, &sn);
    ctx.class(mname);
    ctx.class(&format!("state/keys{}_own{}_remote{}", c.keys_derived as u8, c.own_cert as u8, c.remote_cert as u8));
    ctx.class(&format!("{:?}/{:?}/{}", policy, mode, if asymmetric { "OPN" } else { "MSG" }));
    // non-trivial: passes the header decode and the size check, i.e. reaches policy-dependent code
    if bytes.len() >= 12 && u32::from_le_bytes([bytes[4], bytes[5], bytes[6], bytes[7]]) as usize == bytes.len() && matches!(&bytes[..3], b"MSG" | b"OPN" | b"CLO") {
        ctx.nontrivial();
    }
    let r = ctx.guard(|| recv.verify_and_remove_security(&bytes))?;
    match r {
        Ok(chunk) => {
            ctx.class("verify_ok");
            let _ = ctx.guard(|| chunk.chunk_info(&recv))?;
            let _ = ctx.guard(|| Chunker::validate_chunks(1, &recv, std::slice::from_ref(&chunk)))?;
            let _ = ctx.guard(|| Chunker::decode(std::slice::from_ref(&chunk), &recv, None))?;
        }
        Err(e) => {
            ctx.class("verify_err");
            // the inputs the property names must be reported as errors with a Bad status
            if !e.is_bad() {
                return ctx.fail("error-status-not-bad", format!("{} returned for {}", e, mname));
            }
        }
    }
    if c.via_transport {
        // the callers' own indexing: client transport state
        if !c.receiver_is_server {
            let ch = std::sync::Arc::new(opcua::sync::RwLock::new(build_receiver(c, policy, mode, ck, sk, &cn, &sn)));
            let mut t = opcua::client::verif::VerifTransport::new(ch, 5, 5, 8);
            let _ = ctx.guard(|| t.handle_incoming_message(Message::Chunk(MessageChunk { data: bytes.clone() })))?;
            ctx.class("via_client_transport");
        }
    }
    Ok(())
}

fn mutation() -> impl Strategy<Value = Mutation> {
    prop_oneof![
        1 => Just(Mutation::None),
        3 => any::<u16>().prop_map(Mutation::CutTo),
        3 => (any::<u8>(), any::<u8>()).prop_map(|(r, b)| Mutation::CipherResidue(r, b)),
        3 => (0u8..7, prop_oneof![Just(0u32), Just(1), Just(u32::MAX), Just(0x7fff_ffff), Just(12), Just(16), any::<u32>()]).prop_map(|(f, v)| Mutation::HeaderField(f, v)),
        2 => (0u8..5).prop_map(Mutation::SenderCert),
        2 => (0u8..4).prop_map(Mutation::Thumbprint),
        3 => (any::<u8>(), any::<u8>()).prop_map(|(a, b)| Mutation::PaddingByte(a, b)),
        2 => proptest::collection::vec((any::<u16>(), any::<u8>()), 1..4).prop_map(Mutation::FlipBits),
        1 => proptest::collection::vec(any::<u8>(), 0..80).prop_map(Mutation::Raw),
    ]
}

pub fn def() -> PropDef {
    PropDef {
        id: "C09",
        rule: "receiver states (role x 11 policy/mode pairs x keys derived or not x own certificate present or not x remote certificate set or not) x structure-aware mutants of a valid chunk (total length from 12 bytes up, cipher text length in every residue class of the block, every header field to boundary values, sender certificate null / empty / truncated / garbage / oversized, thumbprint null / 19 / 20 / 21 bytes, bogus padding bytes under a genuine signature, bit flips, raw bytes) into verify_and_remove_security, then chunk_info / validate_chunks / Chunker::decode, and through the client transport state; oracle: value or Bad status, never a panic; non-trivial = input passes the 12-byte header decode and the size check; distinct = distinct case; thorough adds a libFuzzer campaign (target c09_chunk_recv: receiver state from two selector bytes, the rest through verify_and_remove_security, chunk_info, validate_chunks and Chunker::decode, seeded with valid secured chunks)",
        assumptions: &["the receiver channel is built with the public setters only"],
        abort_possible: true,
        parts: |tier| {
            vec![
                // every value of the padding length byte on short chunks, where it can equal or straddle the offset of
                // the signature (genuine signature, so the padding check itself is reached)
                part_enum(
                    "padding_length_byte_exhaustive",
                    |tier| {
                        let payloads: Vec<u16> = if tier == Tier::Quick { vec![0, 1, 7, 16, 40, 100] } else { (0..180).collect() };
                        let mut v = Vec::new();
                        for pm in 0u8..11 {
                            let (_, mode) = fixtures::policy_mode(pm as usize);
                            if mode != MessageSecurityMode::SignAndEncrypt {
                                continue;
                            }
                            for payload in &payloads {
                                for b in 0u16..256 {
                                    v.push(Case { receiver_is_server: b % 2 == 0, pm, keys_derived: true, own_cert: true, remote_cert: true, asymmetric: false, payload: *payload, mutation: Mutation::PaddingByte(b as u8, (b / 7) as u8), via_transport: false });
                                }
                            }
                        }
                        Box::new(v.into_iter())
                    },
                    check,
                ),
                part(
                "receive",
                tier.pick(6_000, 200_000),
                (any::<bool>(), 0u8..11, proptest::bool::weighted(0.8), proptest::bool::weighted(0.8), proptest::bool::weighted(0.8), proptest::bool::weighted(0.4), any::<u16>(), mutation(), proptest::bool::weighted(0.3))
                    .prop_map(|(receiver_is_server, pm, keys_derived, own_cert, remote_cert, asymmetric, payload, mutation, via_transport)| Case { receiver_is_server, pm, keys_derived, own_cert, remote_cert, asymmetric, payload, mutation, via_transport }),
                check,
            )]
            .into_iter()
            .chain(if tier == Tier::Thorough { Some(part_fuzz("libfuzzer_c09_chunk_recv", "c09_chunk_recv", 600_000, 1024)) } else { None })
            .collect()
        },
    }
}

//! C27 — Higher-priority subscriptions are served first.
use crate::engine::*;
use crate::subs::{classify, Delivered, SubFix};
use proptest::prelude::*;
use serde::{Deserialize, Serialize};

#[derive(Clone, Debug, Serialize, Deserialize, PartialEq)]
pub struct Case {
    /// priorities in creation order (made distinct by the harness)
    pub priorities: Vec<u8>,
    /// number of publish requests queued before the tick in which every subscription has a change to report
    pub requests: u8,
    /// Some: afterwards one publish request at a time is sent until every late subscription has been served
    pub second_round_requests: Option<u8>,
    /// Some: after the subscriptions have been ticked once, ModifySubscription gives them these priorities
    #[serde(default)]
    pub modified_priorities: Option<Vec<u8>>,
}

fn case() -> impl Strategy<Value = Case> {
    (prop::collection::vec(any::<u8>(), 2..6), 1u8..7, proptest::option::weighted(0.5, 1u8..7), proptest::option::weighted(0.4, prop::collection::vec(any::<u8>(), 5)))
        .prop_map(|(priorities, requests, second_round_requests, modified_priorities)| Case { priorities, requests, second_round_requests, modified_priorities })
}

fn distinct(ps: &[u8]) -> Vec<u8> {
    let mut out: Vec<u8> = Vec::new();
    for p in ps {
        let mut q = *p;
        while out.contains(&q) {
            q = q.wrapping_add(1);
        }
        out.push(q);
    }
    out
}

fn run(ctx: &Ctx, c: &Case) -> PResult {
    let mut fx = SubFix::new();
    let prios = distinct(&c.priorities);
    let mut subs: Vec<(u32, u8)> = Vec::new();
    for (i, p) in prios.iter().enumerate() {
        let (id, ..) = match ctx.guard(|| fx.create_sub(1000.0, 50, 3000, *p, true))? {
            Ok(x) => x,
            Err(e) => return ctx.fail("setup/create-subscription", format!("{}", e)),
        };
        if let Err(e) = ctx.guard(|| fx.create_item(id, i, 500 + i as u32, 10, true))? {
            return ctx.fail("setup/create-item", format!("{}", e));
        }
        subs.push((id, *p));
    }
    // leave the creating state; nothing is sampled on this tick
    let out = fx.tick(ctx, 0)?;
    if !out.is_empty() {
        return ctx.fail("setup/response-without-request", format!("{}", out.len()));
    }
    if let Some(mp) = &c.modified_priorities {
        let newp = distinct(&mp[..subs.len().min(mp.len())]);
        for (i, p) in newp.iter().enumerate() {
            let st = ctx.guard(|| fx.modify_sub(subs[i].0, 1000.0, 50, 3000, *p))?;
            if st.is_bad() {
                return ctx.fail("setup/modify-subscription", format!("{}", st));
            }
            subs[i].1 = *p;
        }
        ctx.class("priorities_modified_after_first_tick");
    }
    let mut by_priority = subs.clone();
    by_priority.sort_by(|a, b| b.1.cmp(&a.1));
    let id_order_differs = by_priority.iter().map(|x| x.0).collect::<Vec<_>>() != {
        let mut v: Vec<u32> = subs.iter().map(|x| x.0).collect();
        v.sort();
        v.reverse();
        v
    } && by_priority.iter().map(|x| x.0).collect::<Vec<_>>() != {
        let mut v: Vec<u32> = subs.iter().map(|x| x.0).collect();
        v.sort();
        v
    };
    let mut base = (0..crate::subs::N_VARS).map(|v| fx.read(v)).max().unwrap_or(0);

    {
        let round = 0;
        let k = (c.requests as usize).min(2 * subs.len());
        // k publish requests are queued while nothing is there to report
        let mut leftover = fx.queue_lens().0;
        for _ in leftover..k {
            let (_, r, out) = fx.publish(ctx, &[], None, 0)?;
            if r.is_err() {
                break;
            }
            if !out.is_empty() {
                return ctx.fail("setup/request-answered-early", format!("round {}: {:?}", round, out.iter().map(|x| classify(&x.1)).collect::<Vec<_>>()));
            }
        }
        leftover = fx.queue_lens().0;
        let k = leftover;
        // every subscription gets a change, and all publishing intervals elapse in the same tick
        for i in 0..subs.len() {
            base = base.wrapping_add(1);
            fx.write(i, base);
        }
        let out = fx.tick(ctx, 1000)?;
        let served: Vec<u32> = out
            .iter()
            .filter_map(|(_, m)| match classify(m) {
                Delivered::Data { sub, .. } => Some(sub),
                _ => None,
            })
            .collect();
        if served.len() != out.len() {
            return ctx.fail("unexpected-response", format!("round {}: {:?}", round, out.iter().map(|x| classify(&x.1)).collect::<Vec<_>>()));
        }
        // ready = every subscription (each has a pending change); in round 2 a subscription that was not served in
        // round 1 still holds its earlier notification and is equally ready
        let want: Vec<u32> = by_priority.iter().take(k.min(subs.len())).map(|x| x.0).collect();
        if k < subs.len() && id_order_differs {
            ctx.nontrivial();
        }
        ctx.class(if k < subs.len() { "fewer_requests_than_ready_subscriptions" } else { "enough_requests" });
        let got: Vec<u32> = served.iter().take(want.len()).copied().collect();
        if got != want {
            return ctx.fail(
                "priority-order",
                format!(
                    "round {}: subscriptions (id, priority) {:?}, {} publish request(s) queued; served {:?}, expected the {} highest priorities in descending order {:?}",
                    round,
                    subs,
                    k,
                    served,
                    want.len(),
                    want
                ),
            );
        }
        // the subscriptions that were not served are late; each further publish request must go to the highest
        // priority among them
        if c.second_round_requests.is_some() {
            for expect in by_priority.iter().skip(k.min(subs.len())) {
                let (_, r, out) = fx.publish(ctx, &[], None, 0)?;
                if r.is_err() {
                    break;
                }
                let got: Vec<Delivered> = out.iter().map(|x| classify(&x.1)).collect();
                ctx.class("late_subscription_served_on_publish_request");
                match got.first() {
                    Some(Delivered::Data { sub, .. }) if *sub == expect.0 => {}
                    _ => {
                        return ctx.fail(
                            "priority-order/late",
                            format!("subscriptions (id, priority) {:?}: after {} were served by the tick, the next publish request was answered with {:?}, expected data of subscription {}", subs, k.min(subs.len()), got, expect.0),
                        )
                    }
                }
            }
        }
    }
    Ok(())
}

pub fn def() -> PropDef {
    PropDef {
        id: "C27",
        rule: "2..5 subscriptions with distinct generated priorities (creation order independent of priority order; in 40% of the cases the priorities are replaced through ModifySubscription after the first tick), each with one item and a pending change, all publishing intervals elapsing in the same timer tick, k = 1..6 publish requests queued beforehand, optionally followed by one publish request at a time for the subscriptions left late; oracle: the subscriptions answered by that tick are the k highest-priority ones, in descending priority, and each later request is answered by the highest-priority late subscription; non-trivial = fewer requests than ready subscriptions and a priority order that is neither ascending nor descending subscription-id order; distinct = distinct case",
        assumptions: &["priorities are distinct, so no tie-breaking rule is assumed", "when there are more requests than subscriptions only the first |subscriptions| responses are compared"],
        abort_possible: false,
        parts: |tier| vec![part("priority", tier.pick(1000, 100_000), case(), run)],
    }
}

//! C13 — Channel keys are derived per the specification and agree on both ends.
use crate::engine::*;
use crate::fixtures;
use opcua::core::comms::chunker::Chunker;
use opcua::core::comms::secure_channel::Role;
use opcua::core::supported_message::SupportedMessage;
use opcua::crypto::SecurityPolicy;
use opcua::types::*;
use openssl::hash::{hash, MessageDigest};
use proptest::prelude::*;
use serde::{Deserialize, Serialize};

#[derive(Clone, Debug, Serialize, Deserialize)]
pub struct Case {
    pub policy: u8,
    pub client_nonce: Vec<u8>,
    pub server_nonce: Vec<u8>,
    pub sign_only: bool,
}

/// HMAC written out from RFC 2104 over the raw hash function (independent of the crate's hmac_vec)
fn ref_hmac(md: MessageDigest, key: &[u8], msg: &[u8]) -> Vec<u8> {
    const BLOCK: usize = 64;
    let mut k = if key.len() > BLOCK { hash(md, key).unwrap().to_vec() } else { key.to_vec() };
    k.resize(BLOCK, 0);
    let mut inner: Vec<u8> = k.iter().map(|b| b ^ 0x36).collect();
    inner.extend_from_slice(msg);
    let ih = hash(md, &inner).unwrap();
    let mut outer: Vec<u8> = k.iter().map(|b| b ^ 0x5c).collect();
    outer.extend_from_slice(&ih);
    hash(md, &outer).unwrap().to_vec()
}

/// P_hash of RFC 5246 section 5
fn ref_p_hash(md: MessageDigest, secret: &[u8], seed: &[u8], len: usize) -> Vec<u8> {
    let mut out = Vec::new();
    let mut a = seed.to_vec();
    while out.len() < len {
        a = ref_hmac(md, secret, &a);
        let mut m = a.clone();
        m.extend_from_slice(seed);
        out.extend(ref_hmac(md, secret, &m));
    }
    out.truncate(len);
    out
}

/// Part 6 policy table: (hash, signing key length, encrypting key length, block size)
fn table(p: SecurityPolicy) -> (MessageDigest, usize, usize, usize) {
    match p {
        SecurityPolicy::Basic128Rsa15 => (MessageDigest::sha1(), 16, 16, 16),
        SecurityPolicy::Basic256 => (MessageDigest::sha1(), 24, 32, 16),
        SecurityPolicy::Basic256Sha256 => (MessageDigest::sha256(), 32, 32, 16),
        SecurityPolicy::Aes128Sha256RsaOaep => (MessageDigest::sha256(), 32, 16, 16),
        _ => (MessageDigest::sha256(), 32, 32, 16),
    }
}

fn ref_keys(p: SecurityPolicy, secret: &[u8], seed: &[u8]) -> (Vec<u8>, Vec<u8>, Vec<u8>) {
    let (md, s, e, b) = table(p);
    let stream = ref_p_hash(md, secret, seed, s + e + b);
    (stream[..s].to_vec(), stream[s..s + e].to_vec(), stream[s + e..].to_vec())
}

fn check(ctx: &Ctx, c: &Case) -> PResult {
    let policy = fixtures::POLICIES[c.policy as usize % fixtures::POLICIES.len()];
    if c.client_nonce.is_empty() || c.server_nonce.is_empty() {
        // an empty HMAC key is rejected by the OpenSSL 3 provider and every caller enforces the policy's nonce length first
        ctx.excluded();
        return Ok(());
    }
    let (md, ..) = table(policy);
    if c.client_nonce.len() != md.size() || c.server_nonce.len() != md.size() {
        ctx.nontrivial();
    }
    ctx.class(&format!("{:?}", policy));
    // (i) the key function against the reference P_hash
    let (sk, ek, iv) = ctx.guard(|| policy.make_secure_channel_keys(&c.server_nonce, &c.client_nonce))?;
    let want = ref_keys(policy, &c.server_nonce, &c.client_nonce);
    if (sk.as_slice(), ek.value(), iv.as_slice()) != (want.0.as_slice(), want.1.as_slice(), want.2.as_slice()) {
        let which = if sk != want.0 { "signing-key" } else if ek.value() != want.1.as_slice() { "encrypting-key" } else { "iv" };
        return ctx.fail(format!("prf/{}", which), format!("{:?}: keys for secret {:02x?} seed {:02x?} differ from P_hash: got sign {:02x?} enc {:02x?} iv {:02x?}", policy, c.server_nonce, c.client_nonce, sk, ek.value(), iv));
    }
    // (ii) both roles after derive_keys
    let mode = if c.sign_only { MessageSecurityMode::Sign } else { MessageSecurityMode::SignAndEncrypt };
    let key = if matches!(policy, SecurityPolicy::Basic128Rsa15 | SecurityPolicy::Basic256) { "rsa1024a" } else { "rsa2048a" };
    let (mut client, mut server) = fixtures::channel_pair(policy, mode, key, "rsa2048b", &c.client_nonce, &c.server_nonce);
    let (cl, cr) = client.verif_keys();
    let (sl, sr) = server.verif_keys();
    let client_keys = ref_keys(policy, &c.server_nonce, &c.client_nonce);
    let server_keys = ref_keys(policy, &c.client_nonce, &c.server_nonce);
    if cl.as_ref() != Some(&client_keys) || sr.as_ref() != Some(&client_keys) {
        return ctx.fail("roles/client-keys", format!("{:?}: client local {:02x?} / server remote {:02x?} / Part 6 client keys {:02x?}", policy, cl, sr, client_keys));
    }
    if sl.as_ref() != Some(&server_keys) || cr.as_ref() != Some(&server_keys) {
        return ctx.fail("roles/server-keys", format!("{:?}: server local {:02x?} / client remote {:02x?} / Part 6 server keys {:02x?}", policy, sl, cr, server_keys));
    }
    // (iii) behavioural: what one side secures the other verifies, in both directions
    let msg: SupportedMessage = ReadRequest { request_header: RequestHeader::dummy(), max_age: 0.0, timestamps_to_return: TimestampsToReturn::Both, nodes_to_read: Some(vec![ReadValueId::from(NodeId::new(2, "x"))]) }.into();
    for (name, from, to) in [("client->server", &mut client as *mut _, &mut server as *mut _), ("server->client", &mut server as *mut _, &mut client as *mut _)] {
        // SAFETY: the two pointers are distinct channels; raw pointers only sidestep the double &mut borrow of the pair
        let (from, to): (&mut opcua::core::comms::secure_channel::SecureChannel, &mut opcua::core::comms::secure_channel::SecureChannel) = unsafe { (&mut *from, &mut *to) };
        let chunks = Chunker::encode(1, 1, 0, 0, from, &msg).map_err(|e| Failure { sig: "behaviour/encode".into(), detail: format!("{}", e) })?;
        let mut wire = vec![0u8; chunks[0].data.len() + 4096];
        let n = ctx.guard(|| from.apply_security(&chunks[0], &mut wire))?;
        let n = match n {
            Ok(n) => n,
            Err(e) => return ctx.fail("behaviour/apply", format!("{:?} {} apply_security failed: {}", policy, name, e)),
        };
        match ctx.guard(|| to.verify_and_remove_security(&wire[..n]))? {
            Ok(_) => {}
            Err(e) => return ctx.fail("behaviour/verify", format!("{:?} {:?} {}: chunk secured by one side is rejected by the other: {}", policy, mode, name, e)),
        }
    }
    let _ = Role::Client;
    // (iv) another nonce gives other keys
    let mut other = c.client_nonce.clone();
    other[0] ^= 1;
    let k2 = policy.make_secure_channel_keys(&c.server_nonce, &other);
    if (k2.0.as_slice(), k2.1.value(), k2.2.as_slice()) == (sk.as_slice(), ek.value(), iv.as_slice()) {
        return ctx.fail("distinct-nonces-same-keys", format!("{:?}: nonces {:02x?} and {:02x?} give identical keys", policy, c.client_nonce, other));
    }
    Ok(())
}

fn nonce() -> impl Strategy<Value = Vec<u8>> {
    prop_oneof![
        3 => (1usize..=64).prop_flat_map(|n| proptest::collection::vec(any::<u8>(), n)),
        1 => proptest::sample::select(vec![16usize, 20, 32]).prop_flat_map(|n| proptest::collection::vec(any::<u8>(), n)),
        1 => (1usize..=64, proptest::sample::select(vec![0u8, 0xff, 0x5a])).prop_map(|(n, b)| vec![b; n]),
        1 => (0usize..=1).prop_map(|n| vec![1u8; n]),
    ]
}

pub fn def() -> PropDef {
    PropDef {
        id: "C13",
        rule: "5 policies x nonce pairs of length 1..64 (policy lengths, all-zero, all-0xFF, repeated byte, equal nonces, random); oracle = reference P_hash (RFC 5246) over a harness-written HMAC with the Part 6 key length table, role symmetry through the derived-key accessor, a secured chunk verified by the peer in both directions, and distinct nonces giving distinct keys; non-trivial = nonce length differs from the hash output length; distinct = distinct (policy, nonces)",
        assumptions: &["empty nonces are excluded: OpenSSL 3 rejects an empty HMAC key and every caller enforces the policy's nonce length first (counted)"],
        abort_possible: false,
        parts: |tier| vec![part("derive", tier.pick(2_500, 100_000), (0u8..5, nonce(), nonce(), any::<bool>()).prop_map(|(policy, client_nonce, server_nonce, sign_only)| Case { policy, client_nonce, server_nonce, sign_only }), check)],
    }
}

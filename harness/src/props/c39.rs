//! C39 — Event filters evaluate safely and with the specified operator semantics.
use crate::engine::*;
use opcua::server::prelude::*;
use opcua::types::operand::Operand;
use opcua::verif::server::{evaluate_where_clause, like};
use proptest::prelude::*;
use serde::{Deserialize, Serialize};
use std::cell::RefCell;
use std::convert::TryFrom;

thread_local! {
    static SPACE: RefCell<Option<AddressSpace>> = const { RefCell::new(None) };
}

fn with_space<T>(f: impl FnOnce(&AddressSpace) -> T) -> T {
    SPACE.with(|s| {
        let mut s = s.borrow_mut();
        if s.is_none() {
            *s = Some(AddressSpace::new());
        }
        f(s.as_ref().unwrap())
    })
}

fn lit(v: Variant) -> ExtensionObject {
    ExtensionObject::from_encodable(ObjectId::LiteralOperand_Encoding_DefaultBinary, &LiteralOperand { value: v })
}
fn elem(i: u32) -> ExtensionObject {
    ExtensionObject::from_encodable(ObjectId::ElementOperand_Encoding_DefaultBinary, &ElementOperand { index: i })
}

// ---- (i) anything validate_where_clause lets through ------------------------------------------------

#[derive(Clone, Debug, Serialize, Deserialize, PartialEq)]
pub enum RawOperand {
    Num(u8, i64),
    Str(String),
    Bool(bool),
    Null,
    Element(u32),
    Attribute,
    SimpleAttribute(u8),
    NullObject,
    Garbage(Vec<u8>),
}

#[derive(Clone, Debug, Serialize, Deserialize, PartialEq)]
pub struct RawClause {
    /// (operator 0..18, operands or None)
    pub elements: Vec<(u8, Option<Vec<RawOperand>>)>,
}

fn number(kind: u8, v: i64) -> Variant {
    match kind % 10 {
        0 => Variant::SByte(v as i8),
        1 => Variant::Byte(v as u8),
        2 => Variant::Int16(v as i16),
        3 => Variant::UInt16(v as u16),
        4 => Variant::Int32(v as i32),
        5 => Variant::UInt32(v as u32),
        6 => Variant::Int64(v),
        7 => Variant::UInt64(v as u64),
        8 => Variant::Float(v as f32),
        _ => Variant::Double(v as f64),
    }
}

fn operator(k: u8) -> FilterOperator {
    [
        FilterOperator::Equals,
        FilterOperator::IsNull,
        FilterOperator::GreaterThan,
        FilterOperator::LessThan,
        FilterOperator::GreaterThanOrEqual,
        FilterOperator::LessThanOrEqual,
        FilterOperator::Like,
        FilterOperator::Not,
        FilterOperator::Between,
        FilterOperator::InList,
        FilterOperator::And,
        FilterOperator::Or,
        FilterOperator::Cast,
        FilterOperator::InView,
        FilterOperator::OfType,
        FilterOperator::RelatedTo,
        FilterOperator::BitwiseAnd,
        FilterOperator::BitwiseOr,
    ][k as usize % 18]
}

fn raw_operand(o: &RawOperand) -> ExtensionObject {
    match o {
        RawOperand::Num(k, v) => lit(number(*k, *v)),
        RawOperand::Str(s) => lit(Variant::from(s.as_str())),
        RawOperand::Bool(b) => lit(Variant::Boolean(*b)),
        RawOperand::Null => lit(Variant::Empty),
        RawOperand::Element(i) => elem(*i),
        RawOperand::Attribute => ExtensionObject::from_encodable(ObjectId::AttributeOperand_Encoding_DefaultBinary, &AttributeOperand { node_id: ObjectId::Server.into(), alias: UAString::null(), browse_path: RelativePath { elements: None }, attribute_id: 13, index_range: UAString::null() }),
        RawOperand::SimpleAttribute(k) => ExtensionObject::from_encodable(
            ObjectId::SimpleAttributeOperand_Encoding_DefaultBinary,
            &SimpleAttributeOperand { type_definition_id: ObjectTypeId::BaseEventType.into(), browse_path: if *k % 5 == 0 { None } else { Some(vec![QualifiedName::from(["ServerStatus", "State", "nope", "NamespaceArray"][*k as usize % 4])]) }, attribute_id: [13u32, 1, 99][*k as usize % 3], index_range: UAString::null() },
        ),
        RawOperand::NullObject => ExtensionObject::null(),
        RawOperand::Garbage(b) => ExtensionObject { node_id: ObjectId::LiteralOperand_Encoding_DefaultBinary.into(), body: opcua::types::extension_object::ExtensionObjectEncoding::ByteString(ByteString::from(b.clone())) },
    }
}

fn raw_clause() -> impl Strategy<Value = RawClause> {
    let operand = prop_oneof![
        4 => (0u8..10, prop_oneof![Just(0i64), Just(1), Just(-1), Just(255), Just(i64::MAX), Just(i64::MIN), -1000i64..1000]).prop_map(|(k, v)| RawOperand::Num(k, v)),
        2 => "[ab%_\\[\\]^]{0,4}".prop_map(RawOperand::Str),
        2 => any::<bool>().prop_map(RawOperand::Bool),
        1 => Just(RawOperand::Null),
        4 => prop_oneof![0u32..5, Just(u32::MAX), Just(1000u32)].prop_map(RawOperand::Element),
        1 => Just(RawOperand::Attribute),
        1 => any::<u8>().prop_map(RawOperand::SimpleAttribute),
        1 => Just(RawOperand::NullObject),
        1 => prop::collection::vec(any::<u8>(), 0..6).prop_map(RawOperand::Garbage),
    ];
    prop::collection::vec((0u8..18, proptest::option::weighted(0.92, prop::collection::vec(operand, 0..5))), 0..5).prop_map(|elements| RawClause { elements })
}

fn run_raw(ctx: &Ctx, c: &RawClause) -> PResult {
    let clause = ContentFilter { elements: Some(c.elements.iter().map(|(op, operands)| ContentFilterElement { filter_operator: operator(*op), filter_operands: operands.as_ref().map(|v| v.iter().map(raw_operand).collect()) }).collect()) };
    let object: NodeId = ObjectId::Server.into();
    let r = ctx.guard(|| with_space(|a| evaluate_where_clause(&object, &clause, a)))?;
    ctx.class(if r.is_ok() { "evaluated" } else { "refused_with_status" });
    if c.elements.len() >= 2 {
        ctx.nontrivial();
    }
    Ok(())
}

// ---- (ii) well-formed clauses against a reference evaluator --------------------------------------------

#[derive(Clone, Debug, Serialize, Deserialize, PartialEq)]
pub enum Expr {
    /// numeric kind, non-negative value below 2^20 (every implicit conversion is exact)
    Num(u8, u32),
    Str(String),
    Bool(bool),
    Null,
    Cmp(u8, Box<Expr>, Box<Expr>),
    Between(Box<Expr>, Box<Expr>, Box<Expr>),
    InList(Box<Expr>, Vec<Expr>),
    And(Box<Expr>, Box<Expr>),
    Or(Box<Expr>, Box<Expr>),
    Not(Box<Expr>),
    IsNull(Box<Expr>),
    /// false = and, true = or; unsigned integer kinds
    Bitwise(bool, (u8, u32), (u8, u32)),
}

#[derive(Clone, Debug, PartialEq)]
enum Val {
    N(f64),
    S(String),
    B(bool),
    Null,
}

fn reference(e: &Expr) -> Val {
    match e {
        Expr::Num(_, v) => Val::N(*v as f64),
        Expr::Str(s) => Val::S(s.clone()),
        Expr::Bool(b) => Val::B(*b),
        Expr::Null => Val::Null,
        Expr::Cmp(op, a, b) => match (reference(a), reference(b)) {
            (Val::N(x), Val::N(y)) => Val::B(match op % 5 {
                0 => x == y,
                1 => x > y,
                2 => x < y,
                3 => x >= y,
                _ => x <= y,
            }),
            (Val::B(x), Val::B(y)) if op % 5 == 0 => Val::B(x == y),
            // no implicit conversion between the operands: FALSE for every comparison operator
            _ => Val::B(false),
        },
        Expr::Between(v, lo, hi) => match (reference(v), reference(lo), reference(hi)) {
            (Val::N(v), Val::N(lo), Val::N(hi)) => Val::B(v >= lo && v <= hi),
            _ => Val::B(false),
        },
        Expr::InList(v, list) => {
            let v = reference(v);
            Val::B(list.iter().any(|x| matches!((&v, reference(x)), (Val::N(a), Val::N(b)) if *a == b)))
        }
        Expr::And(a, b) => match (reference(a), reference(b)) {
            (Val::B(true), Val::B(true)) => Val::B(true),
            (Val::B(false), _) | (_, Val::B(false)) => Val::B(false),
            _ => Val::Null,
        },
        Expr::Or(a, b) => match (reference(a), reference(b)) {
            (Val::B(true), _) | (_, Val::B(true)) => Val::B(true),
            (Val::B(false), Val::B(false)) => Val::B(false),
            _ => Val::Null,
        },
        Expr::Not(a) => match reference(a) {
            Val::B(b) => Val::B(!b),
            _ => Val::Null,
        },
        Expr::IsNull(a) => Val::B(reference(a) == Val::Null),
        Expr::Bitwise(or, a, b) => Val::N(if *or { (a.1 | b.1) as f64 } else { (a.1 & b.1) as f64 }),
    }
}

fn is_boolish(e: &Expr) -> bool {
    matches!(e, Expr::Bool(_) | Expr::Null | Expr::Cmp(..) | Expr::Between(..) | Expr::InList(..) | Expr::And(..) | Expr::Or(..) | Expr::Not(_) | Expr::IsNull(_))
}

/// flattens the tree into content filter elements; returns the operand that denotes `e`
fn flatten(e: &Expr, out: &mut Vec<ContentFilterElement>) -> ExtensionObject {
    // A sub-expression that occurs twice is emitted once and referenced twice ("there may be more than one path
    // leading to another element", Part 4), so clauses are DAGs, not only trees.
    thread_local! {
        static MEMO: RefCell<std::collections::HashMap<String, u32>> = RefCell::new(std::collections::HashMap::new());
    }
    if out.is_empty() {
        MEMO.with(|m| m.borrow_mut().clear());
    }
    let is_leaf = matches!(e, Expr::Num(..) | Expr::Str(_) | Expr::Bool(_) | Expr::Null);
    let key = serde_json::to_string(e).unwrap_or_default();
    if !is_leaf {
        if let Some(idx) = MEMO.with(|m| m.borrow().get(&key).copied()) {
            if (idx as usize) < out.len() {
                return elem(idx);
            }
        }
    }
    let r = flatten_inner(e, out);
    if !is_leaf {
        // the element index is the one pushed first for this expression
        if let Ok(Operand::ElementOperand(eo)) = Operand::try_from(&r) {
            MEMO.with(|m| m.borrow_mut().insert(key, eo.index));
        }
    }
    r
}

fn flatten_inner(e: &Expr, out: &mut Vec<ContentFilterElement>) -> ExtensionObject {
    fn push(out: &mut Vec<ContentFilterElement>, op: FilterOperator, build: impl FnOnce(&mut Vec<ContentFilterElement>) -> Vec<ExtensionObject>) -> ExtensionObject {
        let idx = out.len();
        out.push(ContentFilterElement { filter_operator: op, filter_operands: None });
        let operands = build(out);
        out[idx].filter_operands = Some(operands);
        elem(idx as u32)
    }
    match e {
        Expr::Num(k, v) => lit(number(*k, *v as i64)),
        Expr::Str(s) => lit(Variant::from(s.as_str())),
        Expr::Bool(b) => lit(Variant::Boolean(*b)),
        Expr::Null => lit(Variant::Empty),
        Expr::Cmp(op, a, b) => push(out, [FilterOperator::Equals, FilterOperator::GreaterThan, FilterOperator::LessThan, FilterOperator::GreaterThanOrEqual, FilterOperator::LessThanOrEqual][*op as usize % 5], |o| vec![flatten(a, o), flatten(b, o)]),
        Expr::Between(v, lo, hi) => push(out, FilterOperator::Between, |o| vec![flatten(v, o), flatten(lo, o), flatten(hi, o)]),
        Expr::InList(v, list) => push(out, FilterOperator::InList, |o| {
            let mut ops = vec![flatten(v, o)];
            ops.extend(list.iter().map(|x| flatten(x, o)));
            ops
        }),
        Expr::And(a, b) => push(out, FilterOperator::And, |o| vec![flatten(a, o), flatten(b, o)]),
        Expr::Or(a, b) => push(out, FilterOperator::Or, |o| vec![flatten(a, o), flatten(b, o)]),
        Expr::Not(a) => push(out, FilterOperator::Not, |o| vec![flatten(a, o)]),
        Expr::IsNull(a) => push(out, FilterOperator::IsNull, |o| vec![flatten(a, o)]),
        Expr::Bitwise(or, a, b) => push(out, if *or { FilterOperator::BitwiseOr } else { FilterOperator::BitwiseAnd }, |_| vec![lit(number(a.0, a.1 as i64)), lit(number(b.0, b.1 as i64))]),
    }
}

fn num() -> impl Strategy<Value = Expr> {
    // kinds whose range holds every generated value: Int16.. (values < 2^15 for the 16 bit kinds)
    prop_oneof![
        (prop::sample::select(vec![0u8, 1]), 0u32..100).prop_map(|(k, v)| Expr::Num(k, v)),
        (prop::sample::select(vec![2u8, 3]), prop_oneof![0u32..100, 30000u32..32767]).prop_map(|(k, v)| Expr::Num(k, v)),
        (prop::sample::select(vec![4u8, 5, 6, 7, 8, 9]), prop_oneof![0u32..100, 100u32..1_000_000]).prop_map(|(k, v)| Expr::Num(k, v)),
    ]
}

fn boolish() -> impl Strategy<Value = Expr> {
    let leaf = prop_oneof![
        3 => any::<bool>().prop_map(Expr::Bool),
        1 => Just(Expr::Null),
        6 => (0u8..5, num(), num()).prop_map(|(op, a, b)| Expr::Cmp(op, Box::new(a), Box::new(b))),
        // no implicit conversion exists between these operands: every comparison operator is FALSE (Part 4, 7.4.3)
        2 => (0u8..5, num(), "[a-c]{1,3}", any::<bool>()).prop_map(|(op, a, s, swap)| if swap { Expr::Cmp(op, Box::new(Expr::Str(s)), Box::new(a)) } else { Expr::Cmp(op, Box::new(a), Box::new(Expr::Str(s))) }),
        2 => (num(), num(), num()).prop_map(|(v, lo, hi)| Expr::Between(Box::new(v), Box::new(lo), Box::new(hi))),
        2 => (num(), prop::collection::vec(num(), 1..4)).prop_map(|(v, l)| Expr::InList(Box::new(v), l)),
        1 => (any::<bool>(), (prop::sample::select(vec![1u8, 3, 5, 7]), 0u32..256), (prop::sample::select(vec![1u8, 3, 5, 7]), 0u32..256)).prop_map(|(or, a, b)| Expr::Cmp(0, Box::new(Expr::Bitwise(or, a, b)), Box::new(Expr::Num(7, if or { a.1 | b.1 } else { a.1 & b.1 })))),
    ];
    leaf.prop_recursive(3, 12, 2, |inner| {
        prop_oneof![
            (inner.clone(), inner.clone()).prop_map(|(a, b)| Expr::And(Box::new(a), Box::new(b))),
            (inner.clone(), inner.clone()).prop_map(|(a, b)| Expr::Or(Box::new(a), Box::new(b))),
            inner.clone().prop_map(|a| Expr::Not(Box::new(a))),
            // the same sub-expression on both sides: a shared element
            (inner.clone(), any::<bool>()).prop_map(|(a, or)| if or { Expr::Or(Box::new(a.clone()), Box::new(a)) } else { Expr::And(Box::new(a.clone()), Box::new(a)) }),
            (inner.clone(), inner.clone()).prop_map(|(a, b)| Expr::And(Box::new(Expr::Not(Box::new(a.clone()))), Box::new(Expr::Or(Box::new(b), Box::new(Expr::Not(Box::new(a))))))),
            inner.prop_map(|a| Expr::IsNull(Box::new(a))),
        ]
    })
}

fn count_ops(e: &Expr) -> usize {
    match e {
        Expr::Cmp(_, a, b) | Expr::And(a, b) | Expr::Or(a, b) => 1 + count_ops(a) + count_ops(b),
        Expr::Between(a, b, c) => 1 + count_ops(a) + count_ops(b) + count_ops(c),
        Expr::InList(a, l) => 1 + count_ops(a) + l.iter().map(count_ops).sum::<usize>(),
        Expr::Not(a) | Expr::IsNull(a) => 1 + count_ops(a),
        Expr::Bitwise(..) => 1,
        _ => 0,
    }
}

fn run_expr(ctx: &Ctx, e: &Expr) -> PResult {
    if !is_boolish(e) {
        return Ok(());
    }
    let mut elements = Vec::new();
    let top = flatten(e, &mut elements);
    if elements.is_empty() {
        // a bare literal is not a where clause
        let _ = top;
        return Ok(());
    }
    let clause = ContentFilter { elements: Some(elements) };
    let object: NodeId = ObjectId::Server.into();
    let got = ctx.guard(|| with_space(|a| evaluate_where_clause(&object, &clause, a)))?;
    let want = reference(e);
    if count_ops(e) >= 2 {
        ctx.nontrivial();
    }
    let got_val = match &got {
        Ok(Variant::Boolean(b)) => Val::B(*b),
        Ok(Variant::Empty) => Val::Null,
        Ok(other) => return ctx.fail("well-formed/not-boolean", format!("{:?} evaluated to {:?}", e, other)),
        Err(s) => return ctx.fail("well-formed/refused", format!("{:?} was refused with {}", e, s)),
    };
    if got_val != want {
        return ctx.fail("well-formed/wrong-result", format!("{:?} evaluated to {:?}, Part 4 semantics give {:?}", e, got_val, want));
    }
    Ok(())
}

// ---- (iii) LIKE against a naive matcher -------------------------------------------------------------------

#[derive(Clone, Debug, Serialize, Deserialize, PartialEq)]
pub enum Tok {
    Lit(char),
    AnyRun,
    AnyOne,
    /// negated, members (single characters and ranges)
    Class(bool, Vec<(char, Option<char>)>),
    Escaped(char),
}

#[derive(Clone, Debug, Serialize, Deserialize, PartialEq)]
pub struct LikeCase {
    pub pattern: Vec<Tok>,
    pub subject: String,
}

fn render(p: &[Tok]) -> String {
    let mut s = String::new();
    for t in p {
        match t {
            Tok::Lit(c) => s.push(*c),
            Tok::AnyRun => s.push('%'),
            Tok::AnyOne => s.push('_'),
            Tok::Class(neg, items) => {
                s.push('[');
                if *neg {
                    s.push('^');
                }
                for (a, b) in items {
                    s.push(*a);
                    if let Some(b) = b {
                        s.push('-');
                        s.push(*b);
                    }
                }
                s.push(']');
            }
            Tok::Escaped(c) => {
                s.push('\\');
                s.push(*c);
            }
        }
    }
    s
}

fn matches(p: &[Tok], s: &[char]) -> bool {
    match p.first() {
        None => s.is_empty(),
        Some(Tok::AnyRun) => (0..=s.len()).any(|k| matches(&p[1..], &s[k..])),
        Some(t) => {
            let Some(c) = s.first() else { return false };
            let ok = match t {
                Tok::Lit(x) | Tok::Escaped(x) => x == c,
                Tok::AnyOne => true,
                Tok::Class(neg, items) => items.iter().any(|(a, b)| match b { Some(b) => a <= c && c <= b, None => a == c }) != *neg,
                Tok::AnyRun => unreachable!(),
            };
            ok && matches(&p[1..], &s[1..])
        }
    }
}

fn like_case() -> impl Strategy<Value = LikeCase> {
    let ch = prop::sample::select(vec!['a', 'b', 'c']);
    let tok = prop_oneof![
        6 => prop::sample::select(vec!['a', 'b', 'c', '.', '*', '?', '+', '(', '$']).prop_map(Tok::Lit),
        3 => Just(Tok::AnyRun),
        2 => Just(Tok::AnyOne),
        2 => (any::<bool>(), prop::collection::vec((ch.clone(), proptest::option::weighted(0.3, prop::sample::select(vec!['b', 'c']))), 1..3)).prop_map(|(n, items)| Tok::Class(n, items.into_iter().map(|(a, b)| (a, b.filter(|b| *b >= a))).collect())),
        1 => prop::sample::select(vec!['%', '_', '[']).prop_map(Tok::Escaped),
    ];
    (prop::collection::vec(tok, 0..6), "[abc.]{0,6}").prop_map(|(pattern, subject)| LikeCase { pattern, subject })
}

fn run_like(ctx: &Ctx, c: &LikeCase) -> PResult {
    let pat = render(&c.pattern);
    let operands = [Operand::LiteralOperand(LiteralOperand { value: Variant::from(c.subject.as_str()) }), Operand::LiteralOperand(LiteralOperand { value: Variant::from(pat.as_str()) })];
    let object: NodeId = ObjectId::Server.into();
    let got = ctx.guard(|| with_space(|a| like(&object, &operands, &[], a)))?;
    let want = matches(&c.pattern, &c.subject.chars().collect::<Vec<_>>());
    let has_wild = c.pattern.iter().any(|t| matches!(t, Tok::AnyRun | Tok::AnyOne));
    if has_wild && want {
        ctx.nontrivial();
    }
    match got {
        Ok(Variant::Boolean(b)) if b == want => Ok(()),
        other => {
            let underscore = c.pattern.iter().any(|t| matches!(t, Tok::AnyOne));
            let escape = c.pattern.iter().any(|t| matches!(t, Tok::Escaped(_)));
            let sig = if underscore { "like/underscore-is-not-exactly-one-character" } else if escape { "like/escape" } else { "like/wrong-result" };
            ctx.fail(sig, format!("{:?} LIKE {:?} evaluated to {:?}, expected {}", c.subject, pat, other, want))
        }
    }
}

pub fn def() -> PropDef {
    PropDef {
        id: "C39",
        rule: "(i) where clauses of 0..4 elements over all 18 operators with 0..4 operands each (numeric literals of every kind incl. extremes, strings, booleans, null, element operands with indexes in and out of range and cyclic, attribute operands, simple attribute operands, null and undecodable extension objects, missing operand lists) evaluated as a monitored item does: returns a value or a status, never panics; (ii) well-formed trees of depth <= 3 over Equals/Gt/Lt/Gte/Lte/Between/InList/And/Or/Not/IsNull/BitwiseAnd/BitwiseOr with non-negative numeric literals below 2^20 of mixed kinds, booleans, null and strings: equal to a reference evaluator written from Part 4 (three-valued And/Or/Not, numeric comparison after promotion, inclusive Between, Equals of unconvertible operands = FALSE); (iii) LIKE patterns built from literal / % / _ / [list] / [^list] / escaped tokens over subjects from {a,b,c,.}: equal to a naive backtracking matcher; non-trivial = (i) at least two elements, (ii) at least two operators, (iii) a wildcard pattern that matches; distinct = distinct case",
        assumptions: &["numeric magnitudes are restricted to where every implicit conversion is exact (the inexact region belongs to C06)", "only Equals is generated between a number and a non-numeric string; other comparisons across unconvertible types are not judged", "LIKE patterns are generated well formed (balanced brackets, escapes followed by a character)"],
        abort_possible: true,
        parts: |tier| vec![part("accepted_clauses_no_panic", tier.pick(3000, 80000), raw_clause(), run_raw), part("well_formed_semantics", tier.pick(2500, 60000), boolish(), run_expr), part("like", tier.pick(3000, 80000), like_case(), run_like)],
    }
}

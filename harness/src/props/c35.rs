//! C35 — Every client request completes exactly once.
use crate::engine::*;
use crate::fixtures;
use opcua::client::verif::{SendBuffer, VerifTransport};
use opcua::core::comms::chunker::Chunker;
use opcua::core::comms::message_chunk::MessageChunk;
use opcua::core::comms::secure_channel::Role;
use opcua::core::comms::tcp_codec::Message;
use opcua::core::supported_message::SupportedMessage;
use opcua::server::prelude::*;
use proptest::prelude::*;
use serde::{Deserialize, Serialize};
use tokio::sync::oneshot::error::TryRecvError;

#[derive(Clone, Debug, Serialize, Deserialize, PartialEq)]
pub enum Op {
    Submit,
    /// poll the transport once: takes the next queued request in flight and notices passed deadlines
    Pump,
    /// target (index over the requests taken in flight so far; 255 = an id nobody has), payload size selector, 0 final / 1 abort /
    /// 2 stop after an intermediate chunk
    Respond(u8, u8, u8),
    /// move the deadline of request k into the past
    Expire(u8),
    /// 0 Good, 1 BadConnectionClosed, 2 BadTimeout... as the status the transport closes with
    Close(u8),
}

fn op() -> impl Strategy<Value = Op> {
    prop_oneof![
        5 => Just(Op::Submit),
        6 => Just(Op::Pump),
        8 => (prop_oneof![8 => 0u8..10, 1 => Just(255u8)], 0u8..4, prop_oneof![5 => Just(0u8), 1 => Just(1u8), 2 => Just(2u8)]).prop_map(|(t, p, l)| Op::Respond(t, p, l)),
        3 => (0u8..10).prop_map(Op::Expire),
    ]
}

fn history() -> impl Strategy<Value = Vec<Op>> {
    (prop::collection::vec(op(), 1..40), 0u8..3).prop_map(|(mut ops, c)| {
        ops.insert(0, Op::Submit);
        ops.push(Op::Close(c));
        ops
    })
}

#[derive(Clone, Debug, PartialEq)]
enum Outcome {
    Response,
    Timeout,
    Aborted,
    Closed(StatusCode),
    /// the receive path returned an error while this response was assembled; the connection is torn down
    ReceiveError,
}

struct Req {
    rx: tokio::sync::oneshot::Receiver<Result<SupportedMessage, StatusCode>>,
    id: Option<u32>,
    done: Option<Outcome>,
    expired: bool,
    response: Option<SupportedMessage>,
    /// intermediate chunks of a response that never completes were delivered: a well-behaved server sends nothing more
    /// for this request
    partial: bool,
}

fn response_for(id: u32, size: u8) -> SupportedMessage {
    let n = [1usize, 3, 120, 300][size as usize % 4];
    let mut r = ReadResponse { response_header: ResponseHeader::new_good(&RequestHeader::dummy()), results: Some((0..n).map(|i| DataValue::value_only(format!("answer-to-{}-{}-{}", id, i, "z".repeat(40)))).collect()), diagnostic_infos: None };
    r.response_header.request_handle = id;
    r.response_header.timestamp = DateTime::from(1_000_000i64 + id as i64);
    r.into()
}

fn run(ctx: &Ctx, ops: &Vec<Op>) -> PResult {
    in_runtime(|| run_inner(ctx, ops))
}

fn run_inner(ctx: &Ctx, ops: &Vec<Op>) -> PResult {
    let mut cch = fixtures::plain_channel(Role::Client);
    cch.set_secure_channel_id(9);
    let ch = std::sync::Arc::new(opcua::sync::RwLock::new(cch));
    let mut t = VerifTransport::new(ch.clone(), 50, 8, 64);
    let mut sb = SendBuffer::new(65535, 0, 0);
    let mut server_ch = fixtures::plain_channel(Role::Server);
    server_ch.set_secure_channel_id(9);
    let mut seq = 1u32;
    let far = std::time::Instant::now() + std::time::Duration::from_secs(3600);
    let past = std::time::Instant::now() - std::time::Duration::from_secs(1);

    let mut reqs: Vec<Req> = Vec::new();
    // indexes (into reqs) of the requests taken in flight, in order
    let mut inflight_order: Vec<usize> = Vec::new();
    let mut closed: Option<StatusCode> = None;
    let mut interesting = false;
    let mut connection_failed = false;

    // polls every callback once and compares with the model
    let settle = |ctx: &Ctx, reqs: &mut Vec<Req>, expect: &dyn Fn(usize, &Req) -> Option<Outcome>, step: usize| -> PResult {
        for (k, r) in reqs.iter_mut().enumerate() {
            if r.done.is_some() {
                // a oneshot cannot fire twice; a value after completion would be a second completion
                continue;
            }
            let got = match r.rx.try_recv() {
                Ok(Ok(m)) => {
                    if Some(&m) != r.response.as_ref() {
                        return ctx.fail("wrong-response-delivered", format!("step {}: request {} (id {:?}) completed with a message that is not the response built for it", step, k, r.id));
                    }
                    Some(Outcome::Response)
                }
                Ok(Err(StatusCode::BadTimeout)) if r.expired => Some(Outcome::Timeout),
                Ok(Err(StatusCode::BadCommunicationError)) => Some(Outcome::Aborted),
                Ok(Err(s)) => Some(Outcome::Closed(s)),
                Err(TryRecvError::Closed) => Some(Outcome::ReceiveError),
                Err(TryRecvError::Empty) => None,
            };
            let want = expect(k, r);
            if got != want {
                return ctx.fail("completion-differs-from-model", format!("step {}: request {} (id {:?}) is {:?}, the model expects {:?}", step, k, r.id, got, want));
            }
            r.done = got;
        }
        Ok(())
    };

    for (i, op) in ops.iter().enumerate() {
        // what the model expects each open request to have become by the end of this step
        let mut expected: Vec<Option<Outcome>> = reqs.iter().map(|_| None).collect();
        match op {
            Op::Submit => {
                if closed.is_some() || connection_failed {
                    continue;
                }
                let msg: SupportedMessage = ReadRequest { request_header: RequestHeader::dummy(), max_age: 0.0, timestamps_to_return: TimestampsToReturn::Both, nodes_to_read: None }.into();
                if let Some(rx) = t.submit(msg, far) {
                    reqs.push(Req { rx, id: None, done: None, expired: false, response: None, partial: false });
                    expected.push(None);
                }
            }
            Op::Pump => {
                if closed.is_some() || connection_failed {
                    continue;
                }
                // deadlines are noticed first
                for (k, r) in reqs.iter().enumerate() {
                    if r.done.is_none() && r.id.is_some() && r.expired {
                        expected[k] = Some(Outcome::Timeout);
                    }
                }
                let taken = ctx.guard(|| t.pump(&mut sb))?;
                if let Some((_, id)) = taken {
                    // the oldest request still waiting in the channel is the one taken
                    if let Some(k) = reqs.iter().position(|r| r.id.is_none() && r.done.is_none()) {
                        if reqs.iter().any(|r| r.id == Some(id)) {
                            return ctx.fail("request-id-reused", format!("step {}: request id {} handed out twice", i, id));
                        }
                        reqs[k].id = Some(id);
                        inflight_order.push(k);
                    }
                }
            }
            Op::Expire(k) => {
                if inflight_order.is_empty() || closed.is_some() {
                    continue;
                }
                let k = inflight_order[*k as usize % inflight_order.len()];
                if reqs[k].done.is_none() {
                    if let Some(id) = reqs[k].id {
                        if t.force_deadline(id, past) {
                            reqs[k].expired = true;
                        }
                    }
                }
            }
            Op::Respond(target, size, last) => {
                if closed.is_some() || connection_failed {
                    continue;
                }
                let (id, k): (u32, Option<usize>) = if *target == 255 || inflight_order.is_empty() {
                    (900_000 + i as u32, None)
                } else {
                    let k = inflight_order[*target as usize % inflight_order.len()];
                    if reqs[k].partial && reqs[k].done.is_none() {
                        (900_000 + i as u32, None)
                    } else {
                        (reqs[k].id.unwrap(), Some(k))
                    }
                };
                let resp = response_for(id, *size);
                let mut chunks: Vec<MessageChunk> = Chunker::encode(seq, id, 0, 8196, &server_ch, &resp).map_err(|e| Failure { sig: "setup".into(), detail: e.to_string() })?;
                let known_open = k.map(|k| reqs[k].done.is_none() && !matches!(expected[k], Some(_))).unwrap_or(false);
                match last {
                    1 => {
                        // the last chunk is an abort chunk
                        if let Some(c) = chunks.last_mut() {
                            c.data[3] = b'A';
                        }
                    }
                    2 => {
                        // the response never completes: only intermediate chunks arrive
                        if chunks.len() >= 2 {
                            chunks.pop();
                        } else if let Some(c) = chunks.last_mut() {
                            c.data[3] = b'C';
                        }
                    }
                    _ => {}
                }
                seq += chunks.len() as u32 + 1;
                if k.is_none() {
                    ctx.class("response_for_unknown_id");
                } else if !known_open {
                    ctx.class("response_for_completed_request");
                    interesting = true;
                }
                if let (Some(k), true) = (k, known_open) {
                    if reqs[k].expired {
                        // response and expiry of the same request are both present
                        interesting = true;
                    }
                    if inflight_order.iter().position(|x| *x == k) != inflight_order.iter().position(|x| reqs[*x].done.is_none()) {
                        // answered out of submission order
                        interesting = true;
                    }
                    match last {
                        0 => {
                            reqs[k].response = Some(resp.clone());
                            expected[k] = Some(Outcome::Response);
                        }
                        1 => expected[k] = Some(Outcome::Aborted),
                        _ => {
                            interesting = true;
                            reqs[k].partial = true;
                        }
                    }
                }
                for c in chunks {
                    let r = ctx.guard(|| t.handle_incoming_message(Message::Chunk(c)))?;
                    if let Err(e) = r {
                        if k.is_none() || !known_open {
                            return ctx.fail("unknown-response-not-ignored", format!("step {}: a response for request id {} (unknown or already completed) made the receive path fail with {}", i, id, e));
                        }
                        return ctx.fail("receive-error-on-wellformed-response", format!("step {}: {}", i, e));
                    }
                }
            }
            Op::Close(s) => {
                if closed.is_some() {
                    continue;
                }
                let status = [StatusCode::Good, StatusCode::BadConnectionClosed, StatusCode::BadServerHalted][*s as usize % 3];
                let want = if status.is_good() { StatusCode::BadConnectionClosed } else { status };
                for (k, r) in reqs.iter().enumerate() {
                    if r.done.is_none() {
                        expected[k] = Some(Outcome::Closed(want));
                    }
                }
                let _ = ctx.guard(|| block_on(t.close(status)))?;
                closed = Some(want);
            }
        }
        let exp = expected.clone();
        settle(ctx, &mut reqs, &|k, _r| exp.get(k).cloned().flatten(), i)?;
    }
    // after the close every request has completed
    for (k, r) in reqs.iter().enumerate() {
        if r.done.is_none() {
            return ctx.fail("never-completed", format!("request {} (id {:?}) has not completed after the transport was closed", k, r.id));
        }
    }
    if interesting {
        ctx.nontrivial();
    }
    Ok(())
}

pub fn def() -> PropDef {
    PropDef {
        id: "C35",
        rule: "schedules of up to 42 events on a real client TransportState (policy None): submit a request, poll the transport once (takes the next request in flight, notices passed deadlines), a response of 1..4 chunks for a request in flight / already completed / unknown id ending in a final chunk, an abort chunk or never completing, move a deadline into the past, close with Good / BadConnectionClosed / BadServerHalted; a model tracks every request; after every event each callback is polled: it completes exactly once, with the response built for its id, BadTimeout after its forced deadline was noticed, BadCommunicationError after an abort chunk, or the close status; responses for unknown or completed ids change nothing; non-trivial = a response and an expiry for the same request, a response out of submission order, a response for a completed request, or a response left incomplete at the close; distinct = distinct schedule",
        assumptions: &["the chunks of one response arrive contiguously with consecutive sequence numbers (validate_chunks requires it)", "deadlines are std::time::Instant: a deadline is expired by moving it into the past through the hook and is noticed at the next poll of the transport, as in the real loop"],
        abort_possible: false,
        parts: |tier| vec![part("transport_schedule", tier.pick(3000, 800_000), history(), run)],
    }
}

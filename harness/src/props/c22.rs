//! C22 — Keep-alives keep flowing and idle subscriptions expire on time.
use crate::engine::*;
use crate::subs::{classify, Delivered, SubFix};
use opcua::server::prelude::*;
use proptest::prelude::*;
use serde::{Deserialize, Serialize};

#[derive(Clone, Debug, Serialize, Deserialize, PartialEq)]
pub enum Mode {
    /// a publish request is queued before every tick
    Always,
    /// no publish request for lifetime + off elapsed intervals (off in -4..=-2 or 1..=3: the property allows one interval of
    /// slack around the lifetime count), then one probe request
    Never(i8),
    /// one publish request every n-th elapsed interval
    Every(u8),
    /// a publish request is queued before every tick for n elapsed intervals, then the client goes silent
    ActiveThenSilent(u8),
    /// the client's first publish request comes n (1 or 2) elapsed intervals late; from then on a request is queued before
    /// every tick
    LateThenAlways(u8),
}

#[derive(Clone, Debug, Serialize, Deserialize, PartialEq)]
pub struct Case {
    pub keep_alive: u32,
    pub lifetime_extra: u32,
    pub enabled: bool,
    pub mode: Mode,
    /// 0: one tick per interval, 1: two ticks per interval, 2: one tick per two intervals
    pub spacing: u8,
    pub ticks: u16,
}

const INTERVAL_MS: i64 = 1000;

fn case() -> impl Strategy<Value = Case> {
    (
        1u32..13,
        prop_oneof![3 => Just(0u32), 2 => 1u32..5],
        proptest::bool::weighted(0.8),
        prop_oneof![4 => Just(Mode::Always), 3 => prop_oneof![-4i8..-1, 1i8..4].prop_map(Mode::Never), 2 => (2u8..7).prop_map(Mode::Every), 3 => (1u8..30).prop_map(Mode::ActiveThenSilent), 2 => (1u8..3).prop_map(Mode::LateThenAlways)],
        prop_oneof![3 => Just(0u8), 1 => Just(1u8), 1 => Just(2u8)],
        1u16..400,
    )
        .prop_map(|(keep_alive, lifetime_extra, enabled, mode, spacing, ticks)| Case { keep_alive, lifetime_extra, enabled, mode, spacing, ticks })
}

struct Clock {
    last_elapsed: Option<chrono::DateTime<chrono::Utc>>,
    elapsed_count: u32,
}

impl Clock {
    /// mirrors the subscription's own test: the interval elapses when at least one interval has passed since it last did
    fn step(&mut self, now: chrono::DateTime<chrono::Utc>) -> bool {
        let e = match self.last_elapsed {
            None => true,
            Some(t) => (now - t).num_milliseconds() >= INTERVAL_MS,
        };
        if e {
            self.last_elapsed = Some(now);
            self.elapsed_count += 1;
        }
        e
    }
}

fn run(ctx: &Ctx, c: &Case) -> PResult {
    let mut fx = SubFix::new();
    let (sub, interval, ka, lt) = match ctx.guard(|| fx.create_sub(INTERVAL_MS as f64, c.keep_alive, 3 * c.keep_alive + c.lifetime_extra, 0, c.enabled))? {
        Ok(x) => x,
        Err(e) => return ctx.fail("setup/create-subscription", format!("{}", e)),
    };
    if interval != INTERVAL_MS as f64 || ka != c.keep_alive || lt != 3 * c.keep_alive + c.lifetime_extra {
        return ctx.fail("setup/revised", format!("revised to interval {} keep-alive {} lifetime {}", interval, ka, lt));
    }
    // leave the creating state
    let out = fx.tick(ctx, 0)?;
    if !out.is_empty() {
        return ctx.fail("setup/response-without-request", format!("{} responses", out.len()));
    }
    let delta = [INTERVAL_MS, INTERVAL_MS / 2, INTERVAL_MS * 2][c.spacing as usize % 3];
    let mut clock = Clock { last_elapsed: None, elapsed_count: 0 };
    let desc = format!("keep-alive count {}, lifetime count {}, publishing {}, {:?}, tick every {} ms", ka, lt, if c.enabled { "enabled" } else { "disabled" }, c.mode, delta);

    match &c.mode {
        Mode::Always | Mode::Every(_) | Mode::LateThenAlways(_) => {
            let every = if let Mode::Every(n) = c.mode { Some(n as u32) } else { None };
            // requests are held back until this many intervals have elapsed
            let late = if let Mode::LateThenAlways(n) = c.mode { n as u32 } else { 0 };
            let mut last_ka: Option<u32> = None;
            let mut keep_alives = 0u32;
            let mut first_ka_at: Option<u32> = None;
            let mut handle = |ctx: &Ctx, clock: &Clock, out: Vec<(u32, opcua::core::supported_message::SupportedMessage)>, last_ka: &mut Option<u32>, keep_alives: &mut u32, first_ka_at: &mut Option<u32>| -> PResult {
                for (_, msg) in out {
                    match classify(&msg) {
                        Delivered::KeepAlive { .. } => {
                            if every.is_none() && c.enabled {
                                if let Some(prev) = *last_ka {
                                    let gap = clock.elapsed_count - prev;
                                    if gap > ka + 1 {
                                        return ctx.fail("keep-alive/gap-too-long", format!("{}: {} intervals between two keep-alives", desc, gap));
                                    }
                                }
                            }
                            if first_ka_at.is_none() {
                                *first_ka_at = Some(clock.elapsed_count);
                            }
                            *last_ka = Some(clock.elapsed_count);
                            *keep_alives += 1;
                        }
                        Delivered::StatusChange { status, .. } => {
                            // requests always available: never expires. One request every n < lifetime - 1 intervals: the
                            // client never stays silent for about lifetime-count intervals, so an expiry comes "before"
                            let silent_ok = match every {
                                // a late start that is itself about a lifetime of silence may legitimately end in an expiry
                                None => late == 0 || late + 2 < lt,
                                Some(n) => n + 1 < lt,
                            };
                            if !c.enabled && every.is_none() {
                                // the property speaks of publishing enabled; counted, not judged
                                ctx.class("disabled_expired_although_requests_available");
                                return Ok(());
                            }
                            if silent_ok {
                                return ctx.fail(
                                    if every.is_none() { "expired-although-requests-always-available" } else { "expired-before-lifetime-of-silence" },
                                    format!("{}: status change {} after {} elapsed intervals", desc, status, clock.elapsed_count),
                                );
                            }
                            return Ok(());
                        }
                        Delivered::Data { .. } => return ctx.fail("unexpected-data", desc.clone()),
                        Delivered::Fault(code) => {
                            if !matches!(code, StatusCode::BadTimeout | StatusCode::BadTooManyPublishRequests | StatusCode::BadNoSubscription) {
                                return ctx.fail("unexpected-fault", format!("{}: {}", desc, code));
                            }
                        }
                        Delivered::Other(o) => return ctx.fail("unexpected-message", o),
                    }
                }
                Ok(())
            };
            for _ in 0..c.ticks {
                let will_elapse = match clock.last_elapsed {
                    None => true,
                    Some(t) => (fx.now + chrono::Duration::milliseconds(delta) - t).num_milliseconds() >= INTERVAL_MS,
                };
                let supply = match every {
                    None => clock.elapsed_count >= late && fx.queue_lens().0 == 0,
                    Some(n) => will_elapse && (clock.elapsed_count + 1) % n == 0 && fx.queue_lens().0 == 0,
                };
                if supply {
                    if fx.sub_ids().is_empty() {
                        break;
                    }
                    let (_, r, out) = fx.publish(ctx, &[], None, 0)?;
                    if let Err(e) = r {
                        return ctx.fail("publish-refused", format!("{}: {}", desc, e));
                    }
                    handle(ctx, &clock, out, &mut last_ka, &mut keep_alives, &mut first_ka_at)?;
                }
                let now = fx.now + chrono::Duration::milliseconds(delta);
                clock.step(now);
                let out = fx.tick(ctx, delta)?;
                handle(ctx, &clock, out, &mut last_ka, &mut keep_alives, &mut first_ka_at)?;
            }
            ctx.class(if every.is_some() { "intermittent_requests" } else if late > 0 { "first_request_late_then_always_available" } else if c.enabled { "always_available_enabled" } else { "always_available_disabled" });
            if every.is_none() && c.enabled {
                if late > 0 {
                    // the first keep-alive answers the late request; after that they must keep flowing
                    if clock.elapsed_count > late + ka + 1 && first_ka_at.is_none() {
                        return ctx.fail("keep-alive/none-after-late-start", format!("{}: no keep-alive in {} elapsed intervals", desc, clock.elapsed_count));
                    }
                } else if clock.elapsed_count >= 2 {
                    match first_ka_at {
                        None => return ctx.fail("keep-alive/first-missing", format!("{}: no keep-alive in {} elapsed intervals", desc, clock.elapsed_count)),
                        Some(n) if n > 2 => return ctx.fail("keep-alive/first-late", format!("{}: first keep-alive only at interval {}", desc, n)),
                        _ => {}
                    }
                }
                if let Some(prev) = last_ka {
                    if clock.elapsed_count - prev > ka + 1 {
                        return ctx.fail("keep-alive/stopped", format!("{}: last keep-alive at interval {}, none in the {} intervals since ({} keep-alives in total)", desc, prev, clock.elapsed_count - prev, keep_alives));
                    }
                }
                if clock.elapsed_count > 2 * (ka + 1) {
                    ctx.nontrivial();
                }
            }
        }
        Mode::ActiveThenSilent(active) => {
            // phase 1: requests always available
            while clock.elapsed_count < *active as u32 {
                if fx.queue_lens().0 == 0 {
                    let (_, r, out) = fx.publish(ctx, &[], None, 0)?;
                    if let Err(e) = r {
                        return ctx.fail("publish-refused", format!("{}: {}", desc, e));
                    }
                    for (_, m) in &out {
                        if let Delivered::StatusChange { status, .. } = classify(m) {
                            if c.enabled {
                                return ctx.fail("expired-although-requests-always-available", format!("{}: status change {} in the active phase", desc, status));
                            }
                            return Ok(());
                        }
                    }
                }
                let now = fx.now + chrono::Duration::milliseconds(delta);
                clock.step(now);
                let out = fx.tick(ctx, delta)?;
                for (_, m) in &out {
                    if let Delivered::StatusChange { status, .. } = classify(m) {
                        if c.enabled {
                            return ctx.fail("expired-although-requests-always-available", format!("{}: status change {} in the active phase", desc, status));
                        }
                        return Ok(());
                    }
                }
            }
            // phase 2: silence. A request left in the queue counts as available until a keep-alive consumes it
            // (at most keep-alive count + 1 intervals), after that the lifetime runs: lifetime + 1 intervals.
            let silent_from = clock.elapsed_count;
            let budget = ka + 1 + lt + 2;
            let mut expired = false;
            while clock.elapsed_count < silent_from + budget && !expired {
                let now = fx.now + chrono::Duration::milliseconds(delta);
                clock.step(now);
                let out = fx.tick(ctx, delta)?;
                expired |= out.iter().any(|(_, m)| matches!(classify(m), Delivered::StatusChange { status, .. } if status == StatusCode::BadTimeout));
            }
            ctx.nontrivial();
            ctx.class("active_then_silent");
            if !expired {
                let (_, r, mut out) = fx.publish(ctx, &[], None, 0)?;
                if r.is_ok() && out.is_empty() {
                    out = fx.tick(ctx, 1)?;
                }
                expired = out.iter().any(|(_, m)| matches!(classify(m), Delivered::StatusChange { status, .. } if status == StatusCode::BadTimeout)) || matches!(r, Err(StatusCode::BadNoSubscription));
            }
            if !expired {
                return ctx.fail(
                    "idle/not-expired-after-client-went-silent",
                    format!("{}: the client had requests available for {} intervals and then sent nothing for {} intervals (keep-alive count + lifetime count + 3); the subscription has not reported BadTimeout", desc, active, budget),
                );
            }
        }
        Mode::Never(off) => {
            let n = (lt as i64 + *off as i64).max(1) as u32;
            while clock.elapsed_count < n {
                let now = fx.now + chrono::Duration::milliseconds(delta);
                clock.step(now);
                let out = fx.tick(ctx, delta)?;
                if !out.is_empty() {
                    return ctx.fail("response-without-request", format!("{}: {} responses although no publish request was sent", desc, out.len()));
                }
            }
            ctx.nontrivial();
            ctx.class(if *off > 0 { "idle_beyond_lifetime" } else { "idle_below_lifetime" });
            let (_, r, mut out) = fx.publish(ctx, &[], None, 0)?;
            if r.is_ok() && out.is_empty() {
                // give the timer one more chance to hand the message over (does not elapse a further interval)
                out = fx.tick(ctx, 1)?;
            }
            let got: Vec<Delivered> = out.iter().map(|(_, m)| classify(m)).collect();
            let expired = got.iter().any(|d| matches!(d, Delivered::StatusChange { status, .. } if *status == StatusCode::BadTimeout)) || matches!(r, Err(StatusCode::BadNoSubscription));
            if *off > 0 && !expired {
                return ctx.fail("idle/not-expired-after-lifetime", format!("{}: after {} idle intervals a publish request was answered with {:?} / {:?}", desc, n, got, r));
            }
            if *off < 0 && expired {
                return ctx.fail("idle/expired-before-lifetime", format!("{}: after only {} idle intervals the subscription reported {:?} / {:?}", desc, n, got, r));
            }
            if *off > 0 {
                // closed means gone
                let _ = fx.tick(ctx, 1)?;
                if fx.sub_ids().contains(&sub) {
                    return ctx.fail("idle/expired-but-not-removed", format!("{}: the subscription still exists after its timeout status change was delivered", desc));
                }
            }
        }
    }
    Ok(())
}

pub fn def() -> PropDef {
    PropDef {
        id: "C22",
        rule: "timer-only histories of 1..400 ticks on one subscription without monitored items, keep-alive count 1..12, lifetime count 3k..3k+4, publishing enabled or disabled, tick spacing of one, half and two publishing intervals, with a publish request always queued / never (idle for lifetime-4..lifetime-2 or lifetime+1..lifetime+3 intervals, then one probe request) / every n-th interval / always for 1..29 intervals and then never again; oracle from the property: always available and enabled => first keep-alive by the 2nd elapsed interval, at most keep-alive-count + 1 intervals between keep-alives, never a status change; never => BadTimeout status change for idle >= lifetime + 1 and none for idle <= lifetime - 2 (one interval of slack), and the subscription is gone afterwards; active then silent => BadTimeout within keep-alive count + lifetime count + 3 intervals of silence; non-trivial = more than two keep-alive periods, or an idle run next to the lifetime; distinct = distinct case",
        assumptions: &[
            "an interval counts as elapsed when the subscription's own test (now - last elapsed >= publishing interval) holds at a timer tick",
            "with publishing disabled and requests always available nothing is asserted (the property speaks of publishing enabled)",
            "intermittent requests (one every n-th interval, n + 1 < lifetime): only 'no expiry' is asserted",
        ],
        abort_possible: false,
        parts: |tier| vec![part("keep_alive_and_lifetime", tier.pick(800, 100_000), case(), run)],
    }
}

//! C21 — Publish responses pair with requests and deliver every data change once.
use crate::engine::*;
use crate::subs::{Delivered, SubFix};
use opcua::server::prelude::*;
use proptest::prelude::*;
use serde::{Deserialize, Serialize};
use std::collections::VecDeque;

#[derive(Clone, Debug, Serialize, Deserialize, PartialEq)]
pub enum Op {
    /// publishing interval selector (100 / 250 / 1000 ms), priority
    CreateSub(u8, u8),
    DeleteSub(u8),
    /// subscription index, variable
    CreateItem(u8, u8),
    /// subscription index, item index
    DeleteItem(u8, u8),
    /// variable, true = a value that differs from the current one
    Write(u8, bool),
    /// advance the clock by 50 / 100 / 250 / 1000 ms and run the timer tick
    Tick(u8),
    /// publish request; true = acknowledge everything received so far
    Publish(bool),
    /// publish request with a timeout hint of its own (730 ms / 3010 ms / 12345 ms): it can go stale before an older request
    PublishWithHint(bool, u8),
}

/// never a multiple of the 50 ms clock steps, so "exactly at the deadline" cannot happen
const HINTS: [u32; 3] = [730, 3010, 12345];
/// Session's publish request timeout (server/session.rs), used for requests without a (smaller) hint
const DEFAULT_PUBLISH_TIMEOUT_MS: i64 = 30_000;

const INTERVALS: [f64; 3] = [100.0, 250.0, 1000.0];
const DELTAS: [i64; 4] = [50, 100, 250, 1000];

fn op() -> impl Strategy<Value = Op> {
    prop_oneof![
        2 => (0u8..3, any::<u8>()).prop_map(|(i, p)| Op::CreateSub(i, p)),
        1 => (0u8..3).prop_map(Op::DeleteSub),
        4 => (0u8..3, 0u8..4).prop_map(|(s, v)| Op::CreateItem(s, v)),
        1 => (0u8..3, 0u8..4).prop_map(|(s, i)| Op::DeleteItem(s, i)),
        8 => (0u8..4, proptest::bool::weighted(0.85)).prop_map(|(v, c)| Op::Write(v, c)),
        10 => (0u8..4).prop_map(Op::Tick),
        5 => any::<bool>().prop_map(Op::Publish),
        3 => (any::<bool>(), 0u8..3).prop_map(|(a, h)| Op::PublishWithHint(a, h)),
    ]
}

fn history() -> impl Strategy<Value = Vec<Op>> {
    (prop::collection::vec(op(), 1..60), 0u8..3).prop_map(|(mut ops, i)| {
        // most histories need a subscription with an item to be interesting
        ops.insert(0, Op::CreateItem(0, 0));
        ops.insert(0, Op::CreateSub(i, 0));
        ops
    })
}

struct MItem {
    id: u32,
    handle: u32,
    var: usize,
    last_sampled: Option<i32>,
    expected: Vec<i64>,
    delivered: Vec<i64>,
    deleted: bool,
}

struct MSub {
    id: u32,
    interval_ms: i64,
    creating: bool,
    last_elapsed: Option<chrono::DateTime<chrono::Utc>>,
    items: Vec<MItem>,
    deleted: bool,
    last_data_seq: Option<u32>,
}

struct Model {
    subs: Vec<MSub>,
    /// request ids queued and not yet answered, oldest first
    queue: VecDeque<u32>,
    /// request id -> the moment after which the request is stale
    deadlines: std::collections::BTreeMap<u32, chrono::DateTime<chrono::Utc>>,
    /// requests that went stale at the current timer tick and must be answered BadTimeout by it
    expired_now: Vec<u32>,
    answered: Vec<u32>,
    unacked: Vec<(u32, u32)>,
    pending_while_queue_empty: bool,
    nontrivial: bool,
}

impl Model {
    fn timer_tick(&mut self, now: chrono::DateTime<chrono::Utc>) {
        for s in self.subs.iter_mut().filter(|s| !s.deleted) {
            if s.creating {
                s.creating = false;
                continue;
            }
            let elapsed = match s.last_elapsed {
                None => true,
                Some(t) => (now - t).num_milliseconds() >= s.interval_ms,
            };
            if elapsed {
                s.last_elapsed = Some(now);
            }
        }
    }
}

fn absorb(ctx: &Ctx, m: &mut Model, step: usize, out: Vec<(u32, opcua::core::supported_message::SupportedMessage)>) -> PResult {
    for (rid, msg) in out {
        // (A0) a request that went stale is answered BadTimeout, wherever it is in the queue; nothing else may time out
        if matches!(crate::subs::classify(&msg), Delivered::Fault(StatusCode::BadTimeout)) {
            if let Some(pos) = m.expired_now.iter().position(|x| *x == rid) {
                m.expired_now.remove(pos);
                m.queue.retain(|x| *x != rid);
                m.answered.push(rid);
                continue;
            }
            return ctx.fail("pairing/timeout-for-a-live-request", format!("step {}: request {} was answered BadTimeout although it is not stale (queue {:?})", step, rid, m.queue));
        }
        if !m.expired_now.is_empty() && m.expired_now.contains(&rid) {
            return ctx.fail("pairing/stale-request-answered", format!("step {}: request {} went stale at this tick but was answered with a publish response", step, rid));
        }
        // (A) pairing: the oldest queued request that is not stale is answered
        let stale: Vec<u32> = m.expired_now.clone();
        m.queue.retain(|x| !stale.contains(x) || *x == rid);
        match m.queue.pop_front() {
            Some(expect) if expect == rid => {}
            Some(expect) => {
                return ctx.fail("pairing/not-oldest-first", format!("step {}: a response carries request id {} but the oldest queued publish request is {} (queue behind it: {:?})", step, rid, expect, m.queue));
            }
            None => {
                let sig = if m.answered.contains(&rid) { "pairing/answered-twice" } else { "pairing/unknown-request" };
                return ctx.fail(sig, format!("step {}: a response carries request id {} but no publish request is outstanding", step, rid));
            }
        }
        m.answered.push(rid);
        match crate::subs::classify(&msg) {
            Delivered::Data { sub, seq, values, .. } => {
                let Some(s) = m.subs.iter_mut().find(|s| s.id == sub) else {
                    return ctx.fail("delivery/unknown-subscription", format!("step {}: data for subscription {}", step, sub));
                };
                // (C) sequence numbers of notifications strictly increase per subscription
                if let Some(prev) = s.last_data_seq {
                    if seq <= prev {
                        return ctx.fail("delivery/sequence-number-not-increasing", format!("step {}: subscription {} sent notification {} after {}", step, sub, seq, prev));
                    }
                }
                s.last_data_seq = Some(seq);
                m.unacked.push((sub, seq));
                for (handle, v) in values {
                    let Some(it) = s.items.iter_mut().find(|i| i.handle == handle) else {
                        return ctx.fail("delivery/unknown-item", format!("step {}: value for client handle {} on subscription {}", step, handle, sub));
                    };
                    it.delivered.push(v);
                    // (B) nothing twice, nothing out of order, nothing invented: delivered is a prefix of the sampled sequence
                    if it.delivered.len() > it.expected.len() || it.expected[..it.delivered.len()] != it.delivered[..] {
                        return ctx.fail(
                            "delivery/not-a-prefix-of-sampled-values",
                            format!("step {}: item {} of subscription {} was sent {:?} but the values sampled for it are {:?}", step, it.id, sub, it.delivered, it.expected),
                        );
                    }
                }
            }
            Delivered::KeepAlive { .. } => {}
            Delivered::StatusChange { sub, status, .. } => {
                return ctx.fail("subscription/expired-unexpectedly", format!("step {}: subscription {} reported status change {} although its lifetime is far away", step, sub, status));
            }
            Delivered::Fault(code) => {
                if !matches!(code, StatusCode::BadTimeout | StatusCode::BadNoSubscription | StatusCode::BadTooManyPublishRequests) {
                    return ctx.fail("pairing/unexpected-fault", format!("step {}: publish request {} answered with {}", step, rid, code));
                }
            }
            Delivered::Other(what) => return ctx.fail("pairing/not-a-publish-response", format!("step {}: {}", step, what)),
        }
    }
    Ok(())
}

fn run(ctx: &Ctx, ops: &Vec<Op>) -> PResult {
    let mut fx = SubFix::new();
    let mut m = Model { subs: Vec::new(), queue: VecDeque::new(), deadlines: Default::default(), expired_now: Vec::new(), answered: Vec::new(), unacked: Vec::new(), pending_while_queue_empty: false, nontrivial: false };
    let mut next_handle = 100u32;
    // values written are unique per case and differ from what the shared variables hold
    let mut counter = (0..crate::subs::N_VARS).map(|v| fx.read(v)).max().unwrap_or(0).wrapping_add(1000);

    let mut do_tick = |ctx: &Ctx, fx: &mut SubFix, m: &mut Model, step: usize, delta: i64| -> PResult {
        // model: which subscriptions see their interval elapse, and what their items sample
        let now = fx.now + chrono::Duration::milliseconds(delta);
        let values: Vec<i32> = (0..crate::subs::N_VARS).map(|v| fx.read(v)).collect();
        for s in m.subs.iter_mut().filter(|s| !s.deleted) {
            if s.creating {
                s.creating = false;
                continue;
            }
            let elapsed = match s.last_elapsed {
                None => true,
                Some(t) => (now - t).num_milliseconds() >= s.interval_ms,
            };
            if !elapsed {
                continue;
            }
            s.last_elapsed = Some(now);
            for it in s.items.iter_mut().filter(|i| !i.deleted) {
                let v = values[it.var];
                if it.last_sampled != Some(v) {
                    it.last_sampled = Some(v);
                    it.expected.push(v as i64);
                    if m.queue.is_empty() {
                        m.pending_while_queue_empty = true;
                    }
                }
            }
        }
        // the timer task first expires stale publish requests
        m.expired_now = m.queue.iter().copied().filter(|rid| m.deadlines.get(rid).map(|d| now > *d).unwrap_or(false)).collect();
        if !m.expired_now.is_empty() && m.expired_now[0] != *m.queue.front().unwrap() {
            ctx.class("request_went_stale_before_an_older_one");
            m.nontrivial = true;
        }
        let out = fx.tick(ctx, delta)?;
        absorb(ctx, m, step, out)?;
        if let Some(rid) = m.expired_now.first() {
            return ctx.fail("pairing/stale-request-not-answered", format!("step {}: request {} went stale at this tick but was not answered BadTimeout", step, rid));
        }
        Ok(())
    };

    for (i, op) in ops.iter().enumerate() {
        match op {
            Op::CreateSub(iv, prio) => {
                if m.subs.iter().filter(|s| !s.deleted).count() >= 3 {
                    continue;
                }
                let interval = INTERVALS[*iv as usize % 3];
                let (id, rev, _ka, lt) = match ctx.guard(|| fx.create_sub(interval, 50, 3000, *prio, true))? {
                    Ok(x) => x,
                    Err(e) => return ctx.fail("setup/create-subscription", format!("{}", e)),
                };
                if rev != interval || lt < 1000 {
                    return ctx.fail("setup/revised", format!("interval {} -> {}, lifetime {}", interval, rev, lt));
                }
                m.subs.push(MSub { id, interval_ms: interval as i64, creating: true, last_elapsed: None, items: Vec::new(), deleted: false, last_data_seq: None });
                // the first timer tick takes the subscription out of its creating state
                do_tick(ctx, &mut fx, &mut m, i, 0)?;
            }
            Op::DeleteSub(k) => {
                let live: Vec<usize> = m.subs.iter().enumerate().filter(|(_, s)| !s.deleted).map(|x| x.0).collect();
                if live.is_empty() {
                    continue;
                }
                let k = live[*k as usize % live.len()];
                let st = ctx.guard(|| fx.delete_sub(m.subs[k].id))?;
                if st.is_bad() {
                    return ctx.fail("setup/delete-subscription", format!("{}", st));
                }
                m.subs[k].deleted = true;
            }
            Op::CreateItem(sk, var) => {
                let live: Vec<usize> = m.subs.iter().enumerate().filter(|(_, s)| !s.deleted).map(|x| x.0).collect();
                if live.is_empty() {
                    continue;
                }
                let k = live[*sk as usize % live.len()];
                if m.subs[k].items.iter().filter(|i| !i.deleted).count() >= 4 {
                    continue;
                }
                next_handle += 1;
                let id = match ctx.guard(|| fx.create_item(m.subs[k].id, *var as usize, next_handle, 10, true))? {
                    Ok(id) => id,
                    Err(e) => return ctx.fail("setup/create-item", format!("{}", e)),
                };
                m.subs[k].items.push(MItem { id, handle: next_handle, var: *var as usize % crate::subs::N_VARS, last_sampled: None, expected: Vec::new(), delivered: Vec::new(), deleted: false });
            }
            Op::DeleteItem(sk, ik) => {
                let live: Vec<usize> = m.subs.iter().enumerate().filter(|(_, s)| !s.deleted).map(|x| x.0).collect();
                if live.is_empty() {
                    continue;
                }
                let k = live[*sk as usize % live.len()];
                let items: Vec<usize> = m.subs[k].items.iter().enumerate().filter(|(_, i)| !i.deleted).map(|x| x.0).collect();
                if items.is_empty() {
                    continue;
                }
                let j = items[*ik as usize % items.len()];
                let st = ctx.guard(|| fx.delete_item(m.subs[k].id, m.subs[k].items[j].id))?;
                if st.is_bad() {
                    return ctx.fail("setup/delete-item", format!("{}", st));
                }
                m.subs[k].items[j].deleted = true;
            }
            Op::Write(var, change) => {
                if *change {
                    counter = counter.wrapping_add(1);
                    fx.write(*var as usize, counter);
                } else {
                    let cur = fx.read(*var as usize);
                    fx.write(*var as usize, cur);
                }
            }
            Op::Tick(d) => do_tick(ctx, &mut fx, &mut m, i, DELTAS[*d as usize % 4])?,
            Op::Publish(..) | Op::PublishWithHint(..) => {
                let (ack, hint) = match op {
                    Op::Publish(a) => (a, 0u32),
                    Op::PublishWithHint(a, h) => (a, HINTS[*h as usize % HINTS.len()]),
                    _ => unreachable!(),
                };
                let acks: Vec<(u32, u32)> = if *ack { m.unacked.drain(..).filter(|(s, _)| m.subs.iter().any(|x| x.id == *s && !x.deleted)).collect() } else { Vec::new() };
                if m.pending_while_queue_empty {
                    m.nontrivial = true;
                }
                let (rid, r, out) = fx.publish(ctx, &acks, None, hint)?;
                let timeout = if hint > 0 && (hint as i64) < DEFAULT_PUBLISH_TIMEOUT_MS { hint as i64 } else { DEFAULT_PUBLISH_TIMEOUT_MS };
                m.deadlines.insert(rid, fx.now + chrono::Duration::milliseconds(timeout));
                match r {
                    Ok(()) => m.queue.push_back(rid),
                    Err(StatusCode::BadNoSubscription) | Err(StatusCode::BadTooManyPublishRequests) => {}
                    Err(e) => return ctx.fail("pairing/unexpected-fault", format!("step {}: publish request refused with {}", i, e)),
                }
                absorb(ctx, &mut m, i, out)?;
            }
        }
    }
    // drain: keep publishing and ticking until two consecutive rounds deliver nothing
    let mut quiet = 0;
    for round in 0..40 {
        let before: usize = m.subs.iter().flat_map(|s| s.items.iter()).map(|i| i.delivered.len()).sum();
        let acks: Vec<(u32, u32)> = m.unacked.drain(..).filter(|(s, _)| m.subs.iter().any(|x| x.id == *s && !x.deleted)).collect();
        let (rid, r, out) = fx.publish(ctx, &acks, None, 0)?;
        m.deadlines.insert(rid, fx.now + chrono::Duration::milliseconds(DEFAULT_PUBLISH_TIMEOUT_MS));
        if r.is_ok() {
            m.queue.push_back(rid);
        }
        absorb(ctx, &mut m, ops.len() + round, out)?;
        do_tick(ctx, &mut fx, &mut m, ops.len() + round, 1000)?;
        let after: usize = m.subs.iter().flat_map(|s| s.items.iter()).map(|i| i.delivered.len()).sum();
        // the drain tick itself may sample a last change
        let outstanding = m.subs.iter().filter(|s| !s.deleted).flat_map(|s| s.items.iter()).any(|i| i.delivered.len() < i.expected.len());
        if after == before && !outstanding {
            quiet += 1;
            if quiet >= 2 {
                break;
            }
        } else if after == before {
            quiet += 1;
            if quiet >= 6 {
                break;
            }
        } else {
            quiet = 0;
        }
    }
    for s in m.subs.iter().filter(|s| !s.deleted) {
        for it in &s.items {
            if it.delivered != it.expected {
                return ctx.fail(
                    "delivery/sampled-change-never-delivered",
                    format!("subscription {} item {} (handle {}): sampled values {:?}, delivered {:?} after the history and a drain of publish requests and ticks", s.id, it.id, it.handle, it.expected, it.delivered),
                );
            }
        }
    }
    if m.nontrivial {
        ctx.nontrivial();
    }
    ctx.class_n("values_sampled", m.subs.iter().flat_map(|s| s.items.iter()).map(|i| i.expected.len() as u64).sum());
    Ok(())
}

pub fn def() -> PropDef {
    PropDef {
        id: "C21",
        rule: "histories of up to 62 operations (create/delete subscription with interval 100/250/1000 ms, create/delete monitored item on 4 variables, write a changed or unchanged value, timer tick after 50/100/250/1000 ms, publish request with or without acknowledgements and with the default timeout or a timeout hint of 730 / 3010 / 12345 ms, so that a newer request can go stale before an older one) on one real session with a simulated clock, followed by a drain of publish requests and ticks; model: per item the sequence of values sampled at each elapsed publishing interval; oracle: a request is answered BadTimeout exactly when it is stale at a timer tick, every other response answers the oldest queued request that is not stale, delivered values are always a prefix of the sampled values and equal them after the drain, notification sequence numbers strictly increase per subscription; non-trivial = a change was sampled while no publish request was queued and a publish request came later; distinct = distinct history",
        assumptions: &[
            "publishing stays enabled, lifetime count 3000 and keep-alive count 50 so that no subscription expires within a history",
            "sampling interval -1 (sample when the publishing interval elapses), queue size 10: the item queue never overflows because it is emptied at every elapsed interval",
            "time is the `now` argument of the session's own functions; the 100 ms tokio timer task is not run",
            "a newly created subscription is ticked once (0 ms) so that it leaves its creating state deterministically",
        ],
        abort_possible: false,
        parts: |tier| vec![part("publish_history", tier.pick(1200, 30000), history(), run)],
    }
}

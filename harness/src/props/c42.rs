//! C42 — JSON encoding of built-in types round-trips.
use crate::engine::*;
use crate::filler::Filler;
use opcua::types::*;
use proptest::prelude::*;
use serde::{de::DeserializeOwned, Deserialize, Serialize};
use std::fmt::Debug;

#[derive(Clone, Debug, Serialize, Deserialize)]
pub struct Case {
    pub kind: u8,
    pub data: Vec<u8>,
}

const KINDS: &[&str] = &["String", "ByteString", "Guid", "NodeId", "ExpandedNodeId", "StatusCode", "LocalizedText", "QualifiedName", "DataValue", "Variant", "DateTime", "VariantArray"];

fn contains_array(v: &Variant) -> bool {
    match v {
        Variant::Array(_) => true,
        Variant::Variant(x) => contains_array(x),
        Variant::DataValue(d) => d.value.as_ref().map(contains_array).unwrap_or(false),
        _ => false,
    }
}

fn rt<T: Serialize + DeserializeOwned + PartialEq + Debug>(ctx: &Ctx, name: &str, v: &T, feature: &str) -> PResult {
    let sig = |what: &str| if feature.is_empty() { format!("json/{}/{}", name, what) } else { format!("json/{}/{}/{}", name, what, feature) };
    let j = match serde_json::to_value(v) {
        Ok(j) => j,
        Err(e) => return ctx.fail(sig("serialize-error"), format!("to_value({:?}) failed: {}", v, e)),
    };
    match serde_json::from_value::<T>(j.clone()) {
        Ok(b) => {
            if b != *v && format!("{:?}", b) != format!("{:?}", v) {
                return ctx.fail(sig("differs"), format!("{:?} serialised as {} came back as {:?}", v, j, b));
            }
        }
        Err(e) => return ctx.fail(sig("deserialize-error"), format!("{:?} serialised as {} is rejected: {}", v, j, e)),
    }
    // and through text
    let s = match serde_json::to_string(v) {
        Ok(s) => s,
        Err(e) => return ctx.fail(sig("serialize-error"), format!("to_string({:?}) failed: {}", v, e)),
    };
    match serde_json::from_str::<T>(&s) {
        Ok(b) => {
            if b != *v && format!("{:?}", b) != format!("{:?}", v) {
                return ctx.fail(sig("differs-text"), format!("{:?} serialised as {} came back as {:?}", v, s, b));
            }
            Ok(())
        }
        Err(e) => ctx.fail(sig("deserialize-error-text"), format!("{:?} serialised as {} is rejected: {}", v, s, e)),
    }
}

fn variant_feature(v: &Variant) -> String {
    // discriminating feature of a failing variant: its outermost kind (and the nested kind one level down)
    fn kind(v: &Variant) -> String {
        format!("{:?}", v.type_id())
    }
    match v {
        Variant::Variant(x) => format!("Variant({})", kind(x)),
        Variant::DataValue(d) => format!("DataValue({})", d.value.as_ref().map(kind).unwrap_or("none".into())),
        other => kind(other),
    }
}

fn check(ctx: &Ctx, c: &Case) -> PResult {
    let mut f = Filler::new(&c.data);
    f.ms_dates = true;
    f.nonempty_ids = true;
    f.no_arrays = true;
    f.uri_replaces_index = true;
    // ExtensionObject and DiagnosticInfo are not among the types the property lists
    f.no_ext_diag = true;
    let k = c.kind as usize % KINDS.len();
    ctx.class(&format!("kind_{}", KINDS[k]));
    match k {
        0 => {
            let v = f.ua_string();
            if v.is_null() || v.as_ref().is_empty() {
                ctx.nontrivial();
                ctx.class(if v.is_null() { "null_string" } else { "empty_string" });
            }
            rt(ctx, "String", &v, "")
        }
        1 => {
            let v = f.byte_string();
            if v.is_null_or_empty() {
                ctx.nontrivial();
                ctx.class(if v.is_null() { "null_bytestring" } else { "empty_bytestring" });
            }
            rt(ctx, "ByteString", &v, "")
        }
        2 => rt(ctx, "Guid", &f.guid(), ""),
        3 => {
            let v = f.node_id(false);
            if v.namespace != 0 {
                ctx.nontrivial();
            }
            rt(ctx, "NodeId", &v, "")
        }
        4 => {
            let v = f.expanded_node_id(false);
            ctx.nontrivial();
            let feature = if !v.namespace_uri.is_empty() { "with-namespace-uri" } else { "" };
            if !feature.is_empty() {
                ctx.class("expanded_with_uri");
            }
            let mut v = v;
            if v.namespace_uri.is_empty() {
                v.namespace_uri = UAString::null();
            } else if v.node_id.namespace != 0 {
                // Part 6: with a namespace URI the Namespace field carries the URI instead of the index, so a
                // value with both is generated with index 0 (the other combination has no JSON form)
                ctx.class("expanded_uri_and_nonzero_index_generated_with_index_0");
                v.node_id.namespace = 0;
            }
            rt(ctx, "ExpandedNodeId", &v, feature)
        }
        5 => rt(ctx, "StatusCode", &f.status_code(), ""),
        6 => {
            let part = |f: &mut Filler| match f.below(3) {
                0 => UAString::null(),
                1 => UAString::from(""),
                _ => UAString::from(f.text(6)),
            };
            let v = LocalizedText { locale: part(&mut f), text: part(&mut f) };
            ctx.nontrivial();
            rt(ctx, "LocalizedText", &v, "")
        }
        7 => {
            ctx.nontrivial();
            rt(ctx, "QualifiedName", &f.qualified_name(), "")
        }
        8 => {
            let v = f.data_value_raw(3);
            ctx.nontrivial();
            let feat = v.value.as_ref().map(variant_feature).unwrap_or_default();
            rt(ctx, "DataValue", &v, &feat)
        }
        9 => {
            let v = f.variant(4);
            match &v {
                Variant::Variant(_) | Variant::DataValue(_) => {
                    ctx.nontrivial();
                    ctx.class("nested_variant_or_datavalue");
                }
                Variant::Int64(x) if x.unsigned_abs() > (1 << 53) => {
                    ctx.nontrivial();
                    ctx.class("int64_beyond_2_53");
                }
                Variant::UInt64(x) if *x > (1 << 53) => {
                    ctx.nontrivial();
                    ctx.class("int64_beyond_2_53");
                }
                Variant::String(s) | Variant::XmlElement(s) if s.is_null() || s.as_ref().is_empty() => ctx.nontrivial(),
                Variant::ByteString(b) if b.is_null_or_empty() => ctx.nontrivial(),
                _ => {}
            }
            ctx.class(&format!("variant_{:?}", v.type_id()));
            rt(ctx, "Variant", &v, &variant_feature(&v))
        }
        10 => {
            ctx.nontrivial();
            rt(ctx, "DateTime", &f.date_time_in_range(), "")
        }
        _ => {
            // arrays: a separate class (the JSON encoder has no array support)
            f.no_arrays = false;
            let v = f.array(2);
            ctx.nontrivial();
            ctx.class("variant_array");
            match guarded(|| serde_json::to_value(&v)) {
                Ok(_) => rt(ctx, "Variant", &v, "Array"),
                Err(p) => {
                    if contains_array(&v) && p.sig.contains("Unsupported variant type") {
                        ctx.fail("json/variant-array-unsupported", format!("serialising {:?} panics: {}", v, p.detail))
                    } else {
                        Err(p)
                    }
                }
            }
        }
    }
}

pub fn def() -> PropDef {
    PropDef {
        id: "C42",
        rule: "values of the JSON-serialisable built-in types from a structured generator (DateTime at millisecond precision, NodeId identifiers non-empty) through serde_json to_value/from_value and to_string/from_str; non-trivial = value has a null/empty distinction, a 64-bit integer beyond 2^53, a nested Variant/DataValue, a non-zero namespace, or is a structured type; distinct = distinct (kind, generator bytes)",
        assumptions: &["equality is the crate's derived PartialEq, with the Debug rendering as fallback for NaN", "Variant arrays are generated as their own class (known finding: the JSON encoder does not support them)"],
        abort_possible: false,
        parts: |tier| vec![part("roundtrip", tier.pick(60_000, 30_000_000), (0u8..KINDS.len() as u8, proptest::collection::vec(any::<u8>(), 0..120)).prop_map(|(kind, data)| Case { kind, data }), check)],
    }
}

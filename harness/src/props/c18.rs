//! C18 — Certificate trust verdicts follow the configured trust store.
use crate::engine::*;
use crate::fixtures;
use opcua::crypto::{CertificateStore, SecurityPolicy, X509};
use serde::{Deserialize, Serialize};
use std::path::PathBuf;

#[derive(Clone, Debug, Serialize, Deserialize)]
pub struct Case {
    pub cert: u8,      // 0..8
    pub policy: u8,    // 0..5
    pub trusted: u8,   // 0 absent, 1 identical copy, 2 same file name with other bytes
    pub rejected: bool,
    pub trust_unknown: bool,
    pub skip_verify: bool,
    pub check_time: bool,
    pub hostname: u8, // 0 None, 1 matching (other case), 2 other, 3 empty
    pub uri: u8,      // 0 None, 1 matching, 2 other
    pub or_reject: bool,
}

const CERTS: &[&str] = &["rsa1024a", "rsa1024b", "rsa2048a", "rsa2048b", "rsa4096a", "rsa4096b", "expired2048", "notyet2048"];

fn key_len_ok(policy: SecurityPolicy, bits: usize) -> bool {
    // Part 7 profile table
    match policy {
        SecurityPolicy::Basic128Rsa15 | SecurityPolicy::Basic256 => (1024..=2048).contains(&bits),
        _ => (2048..=4096).contains(&bits),
    }
}

fn cert_bits(name: &str) -> usize {
    if name.starts_with("rsa") {
        name[3..7].parse().unwrap()
    } else {
        2048
    }
}

fn all_cases(tier: Tier) -> Box<dyn Iterator<Item = Case>> {
    let mut v = Vec::new();
    for cert in 0..CERTS.len() as u8 {
        for policy in 0..5u8 {
            for trusted in 0..3u8 {
                for rejected in [false, true] {
                    for trust_unknown in [false, true] {
                        for skip_verify in [false, true] {
                            for check_time in [false, true] {
                                for hostname in 0..4u8 {
                                    for uri in 0..3u8 {
                                        for or_reject in [false, true] {
                                            v.push(Case { cert, policy, trusted, rejected, trust_unknown, skip_verify, check_time, hostname, uri, or_reject });
                                        }
                                    }
                                }
                            }
                        }
                    }
                }
            }
        }
    }
    if tier == Tier::Quick {
        // quick: every 5th cell of the table (stride co-prime to every axis size keeps every pair of axis values covered)
        Box::new(v.into_iter().enumerate().filter(|(i, _)| i % 7 == 3).map(|(_, c)| c))
    } else {
        Box::new(v.into_iter())
    }
}

fn dir() -> PathBuf {
    fixtures::scratch_dir("c18-pki")
}

fn check(ctx: &Ctx, c: &Case) -> PResult {
    let name = CERTS[c.cert as usize % CERTS.len()];
    let cert: X509 = fixtures::load_cert(name);
    let policy = fixtures::POLICIES[c.policy as usize % 5];
    let pki = dir();
    let trusted_dir = pki.join("trusted");
    let rejected_dir = pki.join("rejected");
    let _ = std::fs::remove_dir_all(&trusted_dir);
    let _ = std::fs::remove_dir_all(&rejected_dir);
    std::fs::create_dir_all(&trusted_dir).map_err(|e| Failure { sig: "io".into(), detail: e.to_string() })?;
    std::fs::create_dir_all(&rejected_dir).map_err(|e| Failure { sig: "io".into(), detail: e.to_string() })?;
    let mut store = CertificateStore::new(&pki);
    store.set_trust_unknown_certs(c.trust_unknown);
    store.set_skip_verify_certs(c.skip_verify);
    store.set_check_time(c.check_time);
    if store.trusted_certs_dir() != trusted_dir || store.rejected_certs_dir() != rejected_dir {
        harness_error("certificate store uses other directory names than trusted/ and rejected/");
    }
    let file_name = CertificateStore::cert_file_name(&cert);
    let der = cert.to_der().map_err(|_| Failure { sig: "fixture".into(), detail: "to_der".into() })?;
    match c.trusted % 3 {
        1 => std::fs::write(trusted_dir.join(&file_name), &der).unwrap(),
        2 => {
            // another certificate's bytes under this certificate's file name
            let other = fixtures::load_cert(CERTS[(c.cert as usize + 1) % CERTS.len()]);
            std::fs::write(trusted_dir.join(&file_name), other.to_der().unwrap()).unwrap()
        }
        _ => {}
    }
    if c.rejected {
        std::fs::write(rejected_dir.join(&file_name), &der).unwrap();
    }
    let hostname = match c.hostname % 4 {
        0 => None,
        1 => Some("VerifHost"),
        2 => Some("otherhost"),
        _ => Some(""),
    };
    let uri = match c.uri % 3 {
        0 => None,
        1 => Some(fixtures::APP_URI),
        _ => Some("urn:other:app"),
    };
    let verdict = ctx.guard(|| {
        if c.or_reject {
            store.validate_or_reject_application_instance_cert(&cert, policy, hostname, uri)
        } else {
            store.validate_application_instance_cert(&cert, policy, hostname, uri)
        }
    })?;

    // reference decision written from the property text
    let not_rejected = !c.rejected;
    let trusted_ok = c.trusted % 3 == 1 || (c.trusted % 3 == 0 && c.trust_unknown);
    let keylen = key_len_ok(policy, cert_bits(name));
    let time_ok = !(name == "expired2048" || name == "notyet2048");
    let host_ok = matches!(c.hostname % 4, 0 | 1);
    let uri_ok = matches!(c.uri % 3, 0 | 1);
    let verify_ok = c.skip_verify || ((!c.check_time || time_ok) && host_ok && uri_ok);
    let conj = [not_rejected, trusted_ok, keylen, verify_ok];
    let expect_good = conj.iter().all(|b| *b);
    let false_count = conj.iter().filter(|b| !**b).count();
    if expect_good || false_count == 1 {
        ctx.nontrivial();
    }
    ctx.class(if expect_good { "expect_good" } else { "expect_bad" });
    let desc = format!("{:?} policy {:?}", c, policy);
    if verdict.is_good() != expect_good {
        let which = if !expect_good {
            if !not_rejected { "rejected-store" } else if !trusted_ok { "untrusted" } else if !keylen { "key-length" } else { "verification" }
        } else {
            "should-be-good"
        };
        return ctx.fail(format!("verdict/{}/{}", if verdict.is_good() { "accepted" } else { "refused" }, which), format!("verdict {} but reference says {}: {}", verdict, if expect_good { "Good" } else { "Bad" }, desc));
    }
    // store post-conditions
    let in_rejected = rejected_dir.join(&file_name).exists();
    let in_trusted = trusted_dir.join(&file_name).exists();
    if verdict.is_good() && in_rejected {
        return ctx.fail("store/accepted-but-in-rejected", desc);
    }
    if c.trusted % 3 == 0 && !c.trust_unknown && !c.rejected && !in_rejected {
        return ctx.fail("store/untrusted-unknown-not-placed-in-rejected", desc);
    }
    if c.trusted % 3 == 0 && in_trusted && !c.trust_unknown {
        return ctx.fail("store/trusted-gained-file-without-trust-unknown", desc);
    }
    Ok(())
}

pub fn def() -> PropDef {
    PropDef {
        id: "C18",
        rule: "the full decision table (8 certificates: 1024/2048/4096-bit valid, expired, not yet valid) x 5 policies x trusted {absent, identical copy, other bytes under the same name} x rejected {absent, present} x trust-unknown x skip-verify x check-time x host name {none, matching in another case, other, empty} x application URI {none, matching, other} x {validate, validate_or_reject} = 46 080 cells, each in a fresh scratch PKI directory; thorough enumerates all cells, quick every 7th; oracle = decision function written from the property text plus store post-conditions; non-trivial = the all-true row or a row with exactly one false conjunct; distinct = distinct cell",
        assumptions: &["certificate chains and revocation are not modelled (neither does the code)", "the host name comparison is case-insensitive in the code; the matching host name is supplied in another case"],
        abort_possible: false,
        parts: |_tier| vec![part_enum("decision_table", all_cases, check)],
    }
}

//! C04 — Textual identifiers parse back to the value they were printed from; parsers never panic.
use crate::engine::*;
use crate::filler::Filler;
use opcua::types::*;
use proptest::prelude::*;
use serde::{Deserialize, Serialize};
use std::str::FromStr;

#[derive(Clone, Debug, Serialize, Deserialize)]
pub struct Case {
    pub kind: u8,
    pub data: Vec<u8>,
}

const META: &[char] = &[';', '=', '\n', '%', ':', ',', ' '];

fn node_id_nontrivial(ctx: &Ctx, n: &NodeId) {
    match &n.identifier {
        Identifier::Numeric(_) => {
            if n.namespace != 0 {
                ctx.nontrivial();
            }
            ctx.class("id_numeric");
        }
        Identifier::String(s) => {
            ctx.nontrivial();
            ctx.class("id_string");
            if s.as_ref().contains(META) {
                ctx.class("id_string_with_metachar");
            }
            if s.as_ref().contains('\n') {
                ctx.class("id_string_with_newline");
            }
        }
        Identifier::Guid(_) => {
            ctx.nontrivial();
            ctx.class("id_guid");
        }
        Identifier::ByteString(_) => {
            ctx.nontrivial();
            ctx.class("id_bytestring");
        }
    }
    ctx.class(match n.namespace {
        0 => "ns_0",
        1..=255 => "ns_1_255",
        _ => "ns_256_65535",
    });
}

fn numeric_range(f: &mut Filler) -> NumericRange {
    fn simple(f: &mut Filler) -> NumericRange {
        if f.bool() {
            NumericRange::Index(f.u32_biased())
        } else {
            let a = f.u32_biased();
            let b = f.u32_biased();
            let (lo, hi) = if a < b { (a, b) } else if b < a { (b, a) } else if a == u32::MAX { (a - 1, a) } else { (a, a + 1) };
            NumericRange::Range(lo, hi)
        }
    }
    match f.below(4) {
        0 => NumericRange::None,
        1 => simple(f),
        _ => {
            let n = 2 + f.below(9);
            NumericRange::MultipleRanges((0..n).map(|_| simple(f)).collect())
        }
    }
}

fn roundtrip(ctx: &Ctx, c: &Case) -> PResult {
    let mut f = Filler::new(&c.data);
    match c.kind % 6 {
        0 => {
            let v = f.node_id(false);
            node_id_nontrivial(ctx, &v);
            let s = v.to_string();
            match NodeId::from_str(&s) {
                Ok(p) if p == v => Ok(()),
                Ok(p) => ctx.fail("nodeid/differs", format!("{:?} printed {:?} parsed back as {:?}", v, s, p)),
                Err(e) => {
                    let sig = if s.contains('\n') { "nodeid/rejected/newline-in-string-identifier" } else { "nodeid/rejected" };
                    ctx.fail(sig, format!("{:?} printed as {:?} is rejected by the parser ({})", v, s, e))
                }
            }
        }
        1 => {
            let v = f.expanded_node_id(false);
            node_id_nontrivial(ctx, &v.node_id);
            ctx.nontrivial();
            let has_uri = !v.namespace_uri.is_empty();
            ctx.class(&format!("expanded_uri{}_svr{}", has_uri as u8, (v.server_index != 0) as u8));
            let s = v.to_string();
            // With a namespace URI the Part 6 text form carries the URI instead of the index, so the index
            // is compared only when no URI is present (the ns!=0+URI combination is counted separately).
            let mut expect = v.clone();
            if has_uri && v.node_id.namespace != 0 {
                ctx.class("expanded_uri_and_nonzero_index_compared_modulo_index");
                expect.node_id.namespace = 0;
            }
            if v.namespace_uri.is_empty() && !v.namespace_uri.is_null() {
                expect.namespace_uri = UAString::null();
            }
            match ExpandedNodeId::from_str(&s) {
                Ok(p) if p == expect => Ok(()),
                Ok(p) => ctx.fail("expanded/differs", format!("{:?} printed {:?} parsed back as {:?}", v, s, p)),
                Err(e) => {
                    let sig = if s.contains('\n') {
                        "expanded/rejected/newline"
                    } else if !has_uri && v.node_id.namespace == 0 {
                        "expanded/rejected/namespace-0-without-uri"
                    } else {
                        "expanded/rejected"
                    };
                    ctx.fail(sig, format!("{:?} printed as {:?} is rejected by the parser ({})", v, s, e))
                }
            }
        }
        2 => {
            let v = f.guid();
            ctx.nontrivial();
            let s = v.to_string();
            match Guid::from_str(&s) {
                Ok(p) if p == v => Ok(()),
                other => ctx.fail("guid", format!("{:?} printed {:?} parsed back as {:?}", v, s, other)),
            }
        }
        3 => {
            let v = numeric_range(&mut f);
            if matches!(v, NumericRange::MultipleRanges(_) | NumericRange::Range(_, _)) {
                ctx.nontrivial();
            }
            let s = v.as_string();
            match NumericRange::from_str(&s) {
                Ok(p) if p == v => Ok(()),
                other => ctx.fail("numeric_range", format!("{:?} printed {:?} parsed back as {:?}", v, s, other)),
            }
        }
        4 => {
            let v = f.date_time_in_range();
            ctx.nontrivial();
            let s = v.to_string();
            match DateTime::from_str(&s) {
                Ok(p) if p.ticks() == v.ticks() => Ok(()),
                other => ctx.fail("datetime/display", format!("{:?} (ticks {}) printed {:?} parsed back as {:?}", v, v.ticks(), s, other.map(|d| d.ticks()))),
            }
        }
        _ => {
            let v = f.date_time_in_range();
            ctx.nontrivial();
            let s = v.to_rfc3339();
            match DateTime::parse_from_rfc3339(&s) {
                // printed precision is milliseconds (10 000 ticks)
                Ok(p) if p.ticks() / 10_000 == v.ticks() / 10_000 && p.ticks() % 10_000 == 0 => Ok(()),
                other => ctx.fail("datetime/rfc3339", format!("{:?} (ticks {}) printed {:?} parsed back as {:?}", v, v.ticks(), s, other.map(|d| d.ticks()))),
            }
        }
    }
}

const PIECES: &[&str] = &[
    "ns=", "svr=", "nsu=", ";", "i=", "s=", "g=", "b=", "0", "1", "9", "65535", "65536", "4294967295", "4294967296", "99999999999999999999", "=", ":", ",", "-",
    "a", "é", "€", "語", "𝄞", "\n", " ", "%", "%3b", "%25", "{", "}", "T", "Z", "+", ".", "/", "urn:x", "00000000-0000-0000-0000-000000000000", "AAAA", "AA==", "!", "#",
    "1601-01-01T00:00:00Z", "9999-12-31T23:59:59.999Z", "2024-02-30", "x",
];

fn parser_total(ctx: &Ctx, parts: &Vec<u8>) -> PResult {
    let s: String = parts.iter().map(|i| PIECES[*i as usize % PIECES.len()]).collect();
    if s.chars().any(|c| c.len_utf8() > 1) {
        ctx.nontrivial();
        ctx.class("multibyte");
    }
    // every text parser of the property; panics are caught by the engine and reported with the call site
    let r1 = NodeId::from_str(&s).is_ok();
    let r2 = Identifier::from_str(&s).is_ok();
    let r3 = ExpandedNodeId::from_str(&s).is_ok();
    let r4 = Guid::from_str(&s).is_ok();
    let r5 = NumericRange::from_str(&s).is_ok();
    let r6 = DateTime::from_str(&s).is_ok();
    let r7 = DateTime::parse_from_rfc3339(&s).is_ok();
    if r1 || r2 || r3 || r4 || r5 || r6 || r7 {
        ctx.nontrivial();
        ctx.class("accepted_by_some_parser");
    }
    Ok(())
}

/// printed forms with one mutation (cut at a byte-level char boundary, insert, duplicate)
fn parser_mutated(ctx: &Ctx, c: &(Case, u16, u8)) -> PResult {
    let (case, pos, how) = c;
    let mut f = Filler::new(&case.data);
    let s = match case.kind % 5 {
        0 => f.node_id(true).to_string(),
        1 => f.expanded_node_id(true).to_string(),
        2 => f.guid().to_string(),
        3 => numeric_range(&mut f).as_string(),
        _ => f.date_time_in_range().to_string(),
    };
    let chars: Vec<char> = s.chars().collect();
    let p = if chars.is_empty() { 0 } else { (*pos as usize * (chars.len() + 1)) >> 16 };
    let mut m: Vec<char> = chars.clone();
    match how % 5 {
        0 => m.truncate(p),
        1 => m.insert(p.min(m.len()), '€'),
        2 => {
            if p < m.len() {
                m.remove(p);
            }
        }
        3 => m.insert(p.min(m.len()), ';'),
        _ => {
            let tail: Vec<char> = m[p.min(m.len())..].to_vec();
            m.extend(tail);
        }
    }
    let s: String = m.into_iter().collect();
    ctx.nontrivial();
    let _ = NodeId::from_str(&s);
    let _ = Identifier::from_str(&s);
    let _ = ExpandedNodeId::from_str(&s);
    let _ = Guid::from_str(&s);
    let _ = NumericRange::from_str(&s);
    let _ = DateTime::from_str(&s);
    let _ = DateTime::parse_from_rfc3339(&s);
    Ok(())
}

fn case_strategy() -> impl Strategy<Value = Case> {
    (0u8..6, proptest::collection::vec(any::<u8>(), 0..64)).prop_map(|(kind, data)| Case { kind, data })
}

pub fn def() -> PropDef {
    PropDef {
        id: "C04",
        rule: "NodeId / ExpandedNodeId / Guid / NumericRange / DateTime values from a structured generator printed and parsed back; plus strings assembled from format tokens and mutated printed forms into every from_str; non-trivial = identifier is not a namespace-0 numeric id, or the string holds a format metacharacter or multi-byte character, or a parser accepted the input; distinct = distinct generator bytes / token sequence; thorough adds a libFuzzer campaign (target c04_ids: strings that parse must print to a string that parses to the same id)",
        assumptions: &[
            "string and byte-string identifiers are non-empty (property text)",
            "an ExpandedNodeId with a namespace URI is compared modulo the namespace index (the Part 6 text form carries either ns= or nsu=)",
            "DateTime::to_rfc3339 prints milliseconds; Display prints full precision",
        ],
        abort_possible: false,
        parts: |tier| {
            vec![
                part("roundtrip", tier.pick(60_000, 12_000_000), case_strategy(), roundtrip),
                part("parser_total", tier.pick(40_000, 6_000_000), proptest::collection::vec(any::<u8>(), 0..12), parser_total),
                part("parser_mutated", tier.pick(30_000, 4_800_000), (case_strategy(), any::<u16>(), any::<u8>()), parser_mutated),
            ]
            .into_iter()
            .chain(if tier == Tier::Thorough { Some(part_fuzz("libfuzzer_c04_ids", "c04_ids", 6_000_000, 512)) } else { None })
            .collect()
        },
    }
}

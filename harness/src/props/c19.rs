//! C19 — Only activated sessions on their own channel can use services.
use crate::engine::*;
use crate::srv::{self, Conn};
use opcua::core::supported_message::SupportedMessage;
use opcua::server::prelude::*;
use opcua::server::session::Session;
use opcua::sync::RwLock;
use proptest::prelude::*;
use serde::{Deserialize, Serialize};
use std::sync::Arc;

#[derive(Clone, Debug, Serialize, Deserialize, PartialEq)]
pub enum Op {
    Create,
    /// session index, credentials: 0 anonymous, 1 userA/right password, 2 userA/wrong password, 3 anonymous with a wrong
    /// policy id, 4 null token object, 5 unknown user
    Activate(u8, u8),
    Close(u8),
    /// kind, session index, token kind: 0 own, 1 forged random token, 2 null, 3 the session *id* used as token,
    /// 4 own token with one byte changed
    Service(u8, u8, u8),
    /// secure channel id of the connection becomes original + n (n = 0 restores it)
    SetChannel(u8),
    /// session index; true = last request lies further back than the session timeout, false = just now
    Elapse(u8, bool),
    /// ActivateSession (anonymous) or CloseSession (second field true) under a token that belongs to no session: 1 forged
    /// random token, 2 null, 3 the session *id* of session s used as token
    SessionServiceWithForeignToken(u8, bool, u8),
}

const N_KINDS: u8 = 9;
const TIMEOUT_MS: f64 = 60_000.0;

fn sidx() -> impl Strategy<Value = u8> {
    prop_oneof![3 => Just(0u8), 1 => 1u8..3]
}

/// most histories start with a session that is created and activated, so that refusals are observed
/// after acceptances
fn history() -> impl Strategy<Value = Vec<Op>> {
    (prop_oneof![3 => Just(true), 1 => Just(false)], prop::collection::vec(op_strategy(), 1..28)).prop_map(|(prefix, mut ops)| {
        if prefix {
            ops.insert(0, Op::Activate(0, 0));
            ops.insert(0, Op::Create);
        }
        ops
    })
}

fn op_strategy() -> impl Strategy<Value = Op> {
    prop_oneof![
        2 => Just(Op::Create),
        4 => (sidx(), prop_oneof![4 => Just(0u8), 3 => Just(1u8), 1 => Just(4u8), 2 => 2u8..6]).prop_map(|(s, c)| Op::Activate(s, c)),
        1 => sidx().prop_map(Op::Close),
        12 => (0u8..N_KINDS, sidx(), prop_oneof![8 => Just(0u8), 1 => 1u8..5]).prop_map(|(k, s, t)| Op::Service(k, s, t)),
        1 => prop_oneof![2 => Just(0u8), 1 => 1u8..3].prop_map(Op::SetChannel),
        1 => (sidx(), prop_oneof![2 => Just(false), 1 => Just(true)]).prop_map(|(s, e)| Op::Elapse(s, e)),
        2 => (sidx(), any::<bool>(), 1u8..4).prop_map(|(s, close, t)| Op::SessionServiceWithForeignToken(s, close, t)),
    ]
}

struct MSession {
    token: NodeId,
    id: NodeId,
    handle: Arc<RwLock<Session>>,
    closed: bool,
    activated: bool,
    bound: u32,
    /// the last request timestamp lies beyond the timeout
    expired: bool,
    /// a request was refused because of the timeout (the real server then drops the connection)
    dead: bool,
}

fn probe_id() -> NodeId {
    NodeId::new(1, "c19-probe")
}

fn ensure_probe(conn: &Conn) {
    let a = conn.server.address_space();
    let mut a = a.write();
    if !a.node_exists(&probe_id()) {
        VariableBuilder::new(&probe_id(), "c19probe", "c19probe").data_type(DataTypeId::Int32).value(0i32).writable().organized_by(ObjectId::ObjectsFolder).insert(&mut a);
    }
}

#[derive(PartialEq, Debug, Clone)]
struct Snapshot {
    probe: Variant,
    subs: Vec<usize>,
    queued: Vec<usize>,
    new_node: bool,
}

fn snapshot(conn: &Conn, sessions: &[MSession], new_node: &NodeId) -> Snapshot {
    let a = conn.server.address_space();
    let a = a.read();
    Snapshot {
        probe: a.get_variable_value(probe_id()).ok().and_then(|v| v.value).unwrap_or(Variant::Empty),
        subs: sessions.iter().map(|s| s.handle.read().verif_subscription_ids().len()).collect(),
        queued: sessions.iter().map(|s| s.handle.read().verif_queue_lens().0).collect(),
        new_node: a.node_exists(new_node),
    }
}

fn object_attributes(name: &str) -> ExtensionObject {
    let m = AttributesMask::DISPLAY_NAME | AttributesMask::DESCRIPTION | AttributesMask::WRITE_MASK | AttributesMask::USER_WRITE_MASK | AttributesMask::EVENT_NOTIFIER;
    ExtensionObject::from_encodable(
        ObjectId::ObjectAttributes_Encoding_DefaultBinary,
        &ObjectAttributes { specified_attributes: m.bits(), display_name: LocalizedText::from(name), description: LocalizedText::new("", "d"), write_mask: 0, user_write_mask: 0, event_notifier: 0 },
    )
}

fn service_request(kind: u8, h: RequestHeader, counter: i32, new_node: &NodeId) -> SupportedMessage {
    match kind {
        0 => ReadRequest { request_header: h, max_age: 0.0, timestamps_to_return: TimestampsToReturn::Both, nodes_to_read: Some(vec![ReadValueId::from(probe_id())]) }.into(),
        1 => WriteRequest {
            request_header: h,
            nodes_to_write: Some(vec![WriteValue { node_id: probe_id(), attribute_id: AttributeId::Value as u32, index_range: UAString::null(), value: DataValue::value_only(Variant::Int32(counter)) }]),
        }
        .into(),
        2 => BrowseRequest {
            request_header: h,
            view: ViewDescription { view_id: NodeId::null(), timestamp: DateTime::null(), view_version: 0 },
            requested_max_references_per_node: 10,
            nodes_to_browse: Some(vec![BrowseDescription {
                node_id: ObjectId::ObjectsFolder.into(),
                browse_direction: BrowseDirection::Forward,
                reference_type_id: ReferenceTypeId::Organizes.into(),
                include_subtypes: true,
                node_class_mask: 0,
                result_mask: 0x3f,
            }]),
        }
        .into(),
        3 => CreateSubscriptionRequest { request_header: h, requested_publishing_interval: 1000.0, requested_lifetime_count: 100, requested_max_keep_alive_count: 10, max_notifications_per_publish: 0, publishing_enabled: true, priority: 0 }.into(),
        4 => AddNodesRequest {
            request_header: h,
            nodes_to_add: Some(vec![AddNodesItem {
                parent_node_id: ObjectId::ObjectsFolder.into(),
                reference_type_id: ReferenceTypeId::Organizes.into(),
                requested_new_node_id: new_node.clone().into(),
                // unique below the Objects folder for the whole worker: the address space is shared by the cases
                browse_name: QualifiedName::from(format!("{}", new_node).as_str()),
                node_class: NodeClass::Object,
                node_attributes: object_attributes("n"),
                type_definition: ObjectTypeId::BaseObjectType.into(),
            }]),
        }
        .into(),
        5 => PublishRequest { request_header: h, subscription_acknowledgements: None }.into(),
        6 => CallRequest {
            request_header: h,
            methods_to_call: Some(vec![CallMethodRequest { object_id: ObjectId::Server.into(), method_id: MethodId::Server_GetMonitoredItems.into(), input_arguments: Some(vec![Variant::UInt32(99999)]) }]),
        }
        .into(),
        7 => TranslateBrowsePathsToNodeIdsRequest {
            request_header: h,
            browse_paths: Some(vec![BrowsePath {
                starting_node: ObjectId::RootFolder.into(),
                relative_path: RelativePath { elements: Some(vec![RelativePathElement { reference_type_id: ReferenceTypeId::Organizes.into(), is_inverse: false, include_subtypes: true, target_name: QualifiedName::from("Objects") }]) },
            }]),
        }
        .into(),
        _ => DeleteSubscriptionsRequest { request_header: h, subscription_ids: Some(vec![1, 2, 3, 4, 5, 6, 7, 8, 9, 10, 11, 12]) }.into(),
    }
}

fn run(ctx: &Ctx, ops: &Vec<Op>) -> PResult {
    let server = srv::worker_server(true);
    let mut conn = Conn::open(server);
    ensure_probe(&conn);
    let channel0 = conn.secure_channel().read().secure_channel_id();
    let mut current_channel = channel0;
    let mut sessions: Vec<MSession> = Vec::new();
    let mut counter = 0i32;
    let mut accepted = 0u32;
    let mut rejected_after_accept = 0u32;

    for (i, op) in ops.iter().enumerate() {
        counter += 1;
        match op {
            Op::Create => {
                if sessions.iter().filter(|s| !s.closed).count() >= 3 {
                    continue;
                }
                let (id, token) = match ctx.guard(|| conn.create_session(TIMEOUT_MS))? {
                    Ok(x) => x,
                    Err(e) => return ctx.fail("create-session/refused", format!("step {}: CreateSession on an open channel failed with {}", i, e)),
                };
                if sessions.iter().any(|s| s.token == token) {
                    return ctx.fail("create-session/token-reused", format!("step {}: the new authentication token equals an earlier one", i));
                }
                let handle = conn.session_object(&token).ok_or_else(|| Failure { sig: "create-session/not-registered".into(), detail: format!("step {}", i) })?;
                sessions.push(MSession { token, id, handle, closed: false, activated: false, bound: current_channel, expired: false, dead: false });
            }
            Op::Activate(s, cred) => {
                if sessions.is_empty() {
                    continue;
                }
                let k = *s as usize % sessions.len();
                let identity = match cred {
                    0 => Conn::anonymous_token(),
                    1 => Conn::user_token(srv::USER_A.0, srv::USER_A.1),
                    2 => Conn::user_token(srv::USER_A.0, "wrong"),
                    3 => ExtensionObject::from_encodable(ObjectId::AnonymousIdentityToken_Encoding_DefaultBinary, &AnonymousIdentityToken { policy_id: UAString::from("nobody") }),
                    4 => ExtensionObject::null(),
                    _ => Conn::user_token("mallory", "x"),
                };
                // a null token object is the anonymous token (Part 4, 5.6.3; IdentityToken::new)
                let good_credentials = *cred <= 1 || *cred == 4;
                let token = sessions[k].token.clone();
                let st = ctx.guard(|| conn.activate(&token, identity))?;
                let m = &mut sessions[k];
                // model
                let expect_ok = if m.closed || m.dead {
                    false
                } else if m.expired {
                    m.dead = true;
                    false
                } else {
                    m.expired = false;
                    if good_credentials && (m.activated || m.bound == current_channel) {
                        m.activated = true;
                        m.bound = current_channel;
                        true
                    } else {
                        // a refused activation leaves the session not activated
                        m.activated = false;
                        false
                    }
                };
                ctx.class(if expect_ok { "activate_expected_good" } else { "activate_expected_bad" });
                if st.is_good() != expect_ok {
                    return ctx.fail(
                        if st.is_good() { "activate/accepted-unexpectedly" } else { "activate/refused-unexpectedly" },
                        format!("step {}: ActivateSession(session {}, credentials {}) returned {}, the model expects {}", i, k, cred, st, if expect_ok { "Good" } else { "a fault" }),
                    );
                }
            }
            Op::Close(s) => {
                if sessions.is_empty() {
                    continue;
                }
                let k = *s as usize % sessions.len();
                let token = sessions[k].token.clone();
                let h = conn.header(&token);
                let r = ctx.guard(|| conn.call(CloseSessionRequest { request_header: h, delete_subscriptions: true }))?;
                let m = &mut sessions[k];
                let expect_ok = !m.closed && (m.activated || m.bound == current_channel);
                let ok = matches!(r, SupportedMessage::CloseSessionResponse(_));
                if ok != expect_ok {
                    return ctx.fail("close/unexpected-result", format!("step {}: CloseSession(session {}) gave {:?}, model expects {}", i, k, srv::status_of(&r), if expect_ok { "success" } else { "a fault" }));
                }
                if ok {
                    m.closed = true;
                    m.activated = false;
                }
            }
            Op::SessionServiceWithForeignToken(s, close, tok) => {
                let token = match (sessions.is_empty(), tok) {
                    (false, 3) => sessions[*s as usize % sessions.len()].id.clone(),
                    (_, 2) => NodeId::null(),
                    _ => NodeId::new(0, ByteString::from(vec![0xA5u8; 32])),
                };
                let before = sessions.iter().map(|m| { let h = m.handle.read(); (h.is_activated(), h.is_terminated()) }).collect::<Vec<_>>();
                let accepted = if *close {
                    let h = conn.header(&token);
                    matches!(ctx.guard(|| conn.call(CloseSessionRequest { request_header: h, delete_subscriptions: true }))?, SupportedMessage::CloseSessionResponse(_))
                } else {
                    ctx.guard(|| conn.activate(&token, Conn::anonymous_token()))?.is_good()
                };
                ctx.class("session_service_with_a_token_of_no_session");
                if accepted {
                    return ctx.fail(
                        if *close { "close/foreign-token-accepted" } else { "activate/foreign-token-accepted" },
                        format!("step {}: {} under token kind {} (no session of this connection has that token) was answered with success", i, if *close { "CloseSession" } else { "ActivateSession" }, tok),
                    );
                }
                let after = sessions.iter().map(|m| { let h = m.handle.read(); (h.is_activated(), h.is_terminated()) }).collect::<Vec<_>>();
                if before != after {
                    return ctx.fail("foreign-token/changed-a-session", format!("step {}: a refused request under a foreign token changed the sessions: {:?} -> {:?}", i, before, after));
                }
            }
            Op::SetChannel(n) => {
                current_channel = channel0 + *n as u32;
                conn.secure_channel().write().set_secure_channel_id(current_channel);
            }
            Op::Elapse(s, expired) => {
                if sessions.is_empty() {
                    continue;
                }
                let k = *s as usize % sessions.len();
                let m = &mut sessions[k];
                if m.closed || m.dead {
                    continue;
                }
                let now = chrono::Utc::now();
                let ts = if *expired { now - chrono::Duration::milliseconds(TIMEOUT_MS as i64 + 10_000) } else { now };
                m.handle.write().set_last_service_request_timestamp(ts);
                m.expired = *expired;
            }
            Op::Service(kind, s, tok) => {
                let kind = *kind % N_KINDS;
                let k = if sessions.is_empty() { None } else { Some(*s as usize % sessions.len()) };
                let token = match (k, tok) {
                    (Some(k), 0) => sessions[k].token.clone(),
                    (Some(k), 3) => sessions[k].id.clone(),
                    (Some(k), 4) => match &sessions[k].token.identifier {
                        Identifier::ByteString(b) => {
                            let mut v = b.value.clone().unwrap_or_default();
                            if let Some(x) = v.last_mut() {
                                *x ^= 1;
                            }
                            NodeId::new(0, ByteString::from(v))
                        }
                        _ => NodeId::new(0, 7u32),
                    },
                    (_, 2) => NodeId::null(),
                    _ => NodeId::new(0, ByteString::from(vec![(counter & 0xff) as u8; 32])),
                };
                let own = matches!((k, tok), (Some(_), 0));
                let valid = match (own, k) {
                    (true, Some(k)) => {
                        let m = &sessions[k];
                        !m.closed && !m.dead && m.activated && m.bound == current_channel && !m.expired
                    }
                    _ => false,
                };
                let new_node = NodeId::new(1, format!("c19-node-{}-{}", std::process::id(), NODE_SEQ.with(|c| {
                    c.set(c.get() + 1);
                    c.get()
                })));
                let before = snapshot(&conn, &sessions, &new_node);
                let h = conn.header(&token);
                let req = service_request(kind, h, counter, &new_node);
                let (r, out) = ctx.guard(|| conn.send(&req))?;
                let after = snapshot(&conn, &sessions, &new_node);
                if r.is_err() {
                    return ctx.fail("service/handler-error", format!("step {}: the message handler returned {:?} for service kind {}", i, r, kind));
                }
                ctx.class(&format!("service_kind_{}_{}", kind, if valid { "valid" } else { "invalid" }));
                if valid {
                    accepted += 1;
                    // model bookkeeping: an authorised request refreshes the timestamp
                    if let Some(k) = k {
                        sessions[k].expired = false;
                    }
                    let fault = out.iter().any(srv::is_fault);
                    match kind {
                        5 => {
                            // Publish is queued (BadNoSubscription without a subscription and BadTooManyPublishRequests on a full queue
                            // are the documented answers to a valid session)
                            let queued_more = after.queued.iter().sum::<usize>() > before.queued.iter().sum::<usize>();
                            let no_sub = out.first().map(|m| matches!(srv::status_of(m), StatusCode::BadNoSubscription | StatusCode::BadTooManyPublishRequests)).unwrap_or(false);
                            if !(queued_more || no_sub || (!out.is_empty() && !fault)) {
                                return ctx.fail("service/valid-session-refused", format!("step {}: Publish on a valid session: {:?}", i, out.first().map(srv::status_of)));
                            }
                        }
                        _ => {
                            if out.len() != 1 || fault {
                                return ctx.fail(
                                    "service/valid-session-refused",
                                    format!("step {}: service kind {} on an activated session bound to this channel was answered with {:?}", i, kind, out.first().map(srv::status_of)),
                                );
                            }
                        }
                    }
                    match kind {
                        1 if after.probe != Variant::Int32(counter) => return ctx.fail("service/write-not-applied", format!("step {}: write answered without fault but the value is {:?}", i, after.probe)),
                        3 if after.subs.iter().sum::<usize>() != before.subs.iter().sum::<usize>() + 1 => return ctx.fail("service/subscription-not-created", format!("step {}", i)),
                        4 if !after.new_node => return ctx.fail("service/node-not-added", format!("step {}", i)),
                        _ => {}
                    }
                } else {
                    if accepted > 0 {
                        rejected_after_accept += 1;
                    }
                    // a session refused for its timeout is terminated
                    if let (true, Some(k)) = (own, k) {
                        let m = &mut sessions[k];
                        if !m.closed && !m.dead && m.activated && m.bound == current_channel && m.expired {
                            m.dead = true;
                        }
                    }
                    if out.len() != 1 || !srv::is_fault(&out[0]) {
                        return ctx.fail(
                            "service/carried-out-without-valid-session",
                            format!("step {}: service kind {} with token kind {} (model: not a live, activated, channel-bound, fresh session) was answered with {:?} ({} messages)", i, kind, tok, out.first().map(|m| m.node_id()), out.len()),
                        );
                    }
                    if before != after {
                        return ctx.fail("service/refused-but-changed-state", format!("step {}: service kind {} was refused but the observable state changed: {:?} -> {:?}", i, kind, before, after));
                    }
                }
            }
        }
    }
    if rejected_after_accept > 0 {
        ctx.nontrivial();
    }
    Ok(())
}

thread_local! {
    static NODE_SEQ: std::cell::Cell<u64> = const { std::cell::Cell::new(0) };
}

pub fn def() -> PropDef {
    PropDef {
        id: "C19",
        rule: "histories of up to 29 operations over CreateSession, ActivateSession (six kinds of credentials), CloseSession, nine services (Read, Write, Browse, CreateSubscription, AddNodes, Publish, Call, TranslateBrowsePaths, DeleteSubscriptions) with own/forged/null/session-id/one-bit-off tokens, secure channel id changes and timestamps moved beyond the session timeout, run against the real dispatcher of one connection and a model of {closed, activated, bound channel, expired}; non-trivial = at least one request refused after at least one request was carried out on the same connection; distinct = distinct history",
        assumptions: &[
            "the dispatcher reads the wall clock for the session timeout, so elapsed time is produced by moving the session's last-request timestamp (public setter) 10 s beyond or exactly to now; the boundary itself is not probed",
            "once a request has been refused for the timeout the real server drops the connection; the model keeps such a session dead and does not move its timestamp again",
            "side effects are observed on a probe variable, the subscription counts and publish queues of all sessions, and the existence of the node an AddNodes would create",
        ],
        abort_possible: false,
        parts: |tier| vec![part("dispatcher_history", tier.pick(1500, 40000), history(), run)],
    }
}

//! C17 — Signature data verifies exactly when made by the right key over the right data.
use crate::engine::*;
use crate::fixtures;
use opcua::crypto::{create_signature_data, verify_signature_data, SecurityPolicy};
use opcua::types::*;
use proptest::prelude::*;
use serde::{Deserialize, Serialize};

#[derive(Clone, Debug, Serialize, Deserialize)]
pub enum Mutation {
    None,
    OtherContainedCert,
    NonceByte(u16, u8),
    NonceTruncated,
    NonceExtended(u8),
    SignatureBit(u16, u8),
    SignatureTruncated(u16),
    SignatureExtended(u8),
    OtherSignerSameSize,
    VerifyAgainstOtherCert,
}

#[derive(Clone, Debug, Serialize, Deserialize)]
pub struct Case {
    pub policy: u8,
    pub signer: u8,
    pub contained: u8,
    pub nonce: Vec<u8>,
    pub mutation: Mutation,
}

fn check(ctx: &Ctx, c: &Case) -> PResult {
    let policy = fixtures::POLICIES[c.policy as usize % 5];
    // key size must be valid for the policy: SHA-1 policies 1024..2048, the others 2048..4096
    let sizes: &[&str] = if matches!(policy, SecurityPolicy::Basic128Rsa15 | SecurityPolicy::Basic256) { &["rsa1024", "rsa2048"] } else { &["rsa2048", "rsa4096"] };
    let size = sizes[c.signer as usize % sizes.len()];
    let signer_name = format!("{}a", size);
    let other_name = format!("{}b", size);
    let signer_key = fixtures::load_key(&signer_name);
    let signer_cert = fixtures::load_cert(&signer_name);
    let contained_name = fixtures::KEY_NAMES[c.contained as usize % fixtures::KEY_NAMES.len()];
    let contained = fixtures::load_cert(contained_name);
    let nonce = if c.nonce.is_empty() { vec![1u8] } else { c.nonce.clone() };
    ctx.class(&format!("{:?}", policy));

    let sig = match ctx.guard(|| create_signature_data(&signer_key, policy, &contained.as_byte_string(), &ByteString::from(&nonce)))? {
        Ok(s) => s,
        Err(e) => return ctx.fail("create-error", format!("{:?} {}: create_signature_data failed: {}", policy, signer_name, e)),
    };
    // control: unmutated must verify
    let good = ctx.guard(|| verify_signature_data(&sig, policy, &signer_cert, &contained, &nonce))?;
    if !good.is_good() {
        return ctx.fail("unmutated-rejected", format!("{:?} signer {} contained {} nonce len {}: genuine signature rejected with {}", policy, signer_name, contained_name, nonce.len(), good));
    }
    let mut vsig = sig.clone();
    let mut vcert = signer_cert.clone();
    let mut vcontained = contained.clone();
    let mut vnonce = nonce.clone();
    let mname;
    match &c.mutation {
        Mutation::None => return Ok(()),
        Mutation::OtherContainedCert => {
            let other = fixtures::KEY_NAMES[(c.contained as usize + 1) % fixtures::KEY_NAMES.len()];
            vcontained = fixtures::load_cert(other);
            mname = "other-contained-cert";
        }
        Mutation::NonceByte(p, b) => {
            let i = (*p as usize * vnonce.len()) >> 16;
            vnonce[i] ^= if *b == 0 { 1 } else { *b };
            mname = "nonce-byte";
        }
        Mutation::NonceTruncated => {
            vnonce.pop();
            mname = "nonce-truncated";
        }
        Mutation::NonceExtended(b) => {
            vnonce.push(*b);
            mname = "nonce-extended";
        }
        Mutation::SignatureBit(p, bit) => {
            let mut s = vsig.signature.value.clone().unwrap_or_default();
            let i = (*p as usize * s.len()) >> 16;
            s[i] ^= 1 << (bit % 8);
            vsig.signature = ByteString::from(s);
            mname = "signature-bit";
        }
        Mutation::SignatureTruncated(p) => {
            let mut s = vsig.signature.value.clone().unwrap_or_default();
            let i = (*p as usize * s.len()) >> 16;
            s.truncate(i);
            vsig.signature = ByteString::from(s);
            mname = "signature-truncated";
        }
        Mutation::SignatureExtended(b) => {
            let mut s = vsig.signature.value.clone().unwrap_or_default();
            s.push(*b);
            vsig.signature = ByteString::from(s);
            mname = "signature-extended";
        }
        Mutation::OtherSignerSameSize => {
            let k = fixtures::load_key(&other_name);
            vsig = match create_signature_data(&k, policy, &contained.as_byte_string(), &ByteString::from(&nonce)) {
                Ok(s) => s,
                Err(_) => return Ok(()),
            };
            mname = "other-signer";
        }
        Mutation::VerifyAgainstOtherCert => {
            vcert = fixtures::load_cert(&other_name);
            mname = "other-verification-cert";
        }
    }
    ctx.nontrivial();
    ctx.class(mname);
    let r = ctx.guard(|| verify_signature_data(&vsig, policy, &vcert, &vcontained, &vnonce))?;
    if r.is_good() {
        return ctx.fail(format!("mutated-accepted/{}", mname), format!("{:?} signer {}: verification succeeded after mutation {:?}", policy, signer_name, c.mutation));
    }
    Ok(())
}

fn mutation() -> impl Strategy<Value = Mutation> {
    prop_oneof![
        Just(Mutation::None),
        Just(Mutation::OtherContainedCert),
        (any::<u16>(), any::<u8>()).prop_map(|(p, b)| Mutation::NonceByte(p, b)),
        Just(Mutation::NonceTruncated),
        any::<u8>().prop_map(Mutation::NonceExtended),
        (any::<u16>(), any::<u8>()).prop_map(|(p, b)| Mutation::SignatureBit(p, b)),
        (any::<u16>(), any::<u8>()).prop_map(|(p, b)| Mutation::SignatureBit(p, b)),
        any::<u16>().prop_map(Mutation::SignatureTruncated),
        any::<u8>().prop_map(Mutation::SignatureExtended),
        Just(Mutation::OtherSignerSameSize),
        Just(Mutation::VerifyAgainstOtherCert),
    ]
}

pub fn def() -> PropDef {
    PropDef {
        id: "C17",
        rule: "5 signing policies x signer key (sizes valid for the policy) x contained certificate x nonce of 1..64 bytes, then one mutation (other contained certificate, nonce byte / truncated / extended, signature bit / truncated / extended, other signer of the same size, other verification certificate); oracle: unmutated verifies Good, every mutation verifies Bad; non-trivial = a mutation case whose unmutated twin verified; distinct = distinct case",
        assumptions: &["policy None is excluded: both callers guard it and asymmetric_verify_signature documents it with panic!(\"Invalid policy\")", "the algorithm URI is not part of the property's mutation list"],
        abort_possible: false,
        parts: |tier| vec![part("sign_verify", tier.pick(3_000, 60_000), (0u8..5, any::<u8>(), any::<u8>(), proptest::collection::vec(any::<u8>(), 1..64), mutation()).prop_map(|(policy, signer, contained, nonce, mutation)| Case { policy, signer, contained, nonce, mutation }), check)],
    }
}

//! C30 — Browsing in pages returns the full result exactly once.
use crate::engine::*;
use crate::srv::{self, Conn};
use opcua::core::supported_message::SupportedMessage;
use opcua::server::prelude::*;
use proptest::prelude::*;
use serde::{Deserialize, Serialize};
use std::cell::Cell;
use std::collections::VecDeque;

#[derive(Clone, Debug, Serialize, Deserialize, PartialEq)]
pub struct Desc {
    /// 0 forward, 1 inverse, 2 both
    pub direction: u8,
    /// 0 null, 1 Organizes, 2 HasComponent, 3 HierarchicalReferences, 4 Aggregates, 5 HasProperty
    pub reference_type: u8,
    pub include_subtypes: bool,
    /// 0 none, 1 Object, 2 Variable, 3 both
    pub node_class_mask: u8,
    pub result_mask: u8,
    pub page_size: u8,
}

#[derive(Clone, Debug, Serialize, Deserialize, PartialEq)]
pub enum Op {
    /// (re)start stream k with its description
    Start(u8),
    Next(u8),
    Release(u8),
    /// present a continuation point of stream k that was already used
    ReuseConsumed(u8),
    /// change the address space: 0 add a reference, 1 add a node, 2 delete a reference, 3 delete a node (none touching the hub)
    Modify(u8),
    /// open n further continuation points on the session
    Flood(u8),
}

#[derive(Clone, Debug, Serialize, Deserialize, PartialEq)]
pub struct Case {
    /// targets: (node is a Variable, reference type 0 Organizes / 1 HasComponent / 2 HasProperty, inverse too)
    pub targets: Vec<(bool, u8, bool)>,
    pub streams: Vec<Desc>,
    pub ops: Vec<Op>,
}

const MAX_CP: usize = 20;

fn desc() -> impl Strategy<Value = Desc> {
    (0u8..3, 0u8..6, any::<bool>(), 0u8..4, prop_oneof![Just(0x3fu8), Just(0u8), any::<u8>()], prop_oneof![4 => 1u8..6, 2 => 6u8..45]).prop_map(|(direction, reference_type, include_subtypes, node_class_mask, result_mask, page_size)| Desc {
        direction,
        reference_type,
        include_subtypes,
        node_class_mask,
        result_mask,
        page_size,
    })
}

fn op() -> impl Strategy<Value = Op> {
    prop_oneof![
        3 => (0u8..3).prop_map(Op::Start),
        12 => (0u8..3).prop_map(Op::Next),
        1 => (0u8..3).prop_map(Op::Release),
        2 => (0u8..3).prop_map(Op::ReuseConsumed),
        1 => (0u8..4).prop_map(Op::Modify),
        1 => prop_oneof![1u8..5, 18u8..24].prop_map(Op::Flood),
    ]
}

fn case() -> impl Strategy<Value = Case> {
    (prop::collection::vec((any::<bool>(), 0u8..3, proptest::bool::weighted(0.3)), 0..40), prop::collection::vec(desc(), 1..4), prop::collection::vec(op(), 1..40)).prop_map(|(targets, streams, mut ops)| {
        ops.insert(0, Op::Start(0));
        Case { targets, streams, ops }
    })
}

thread_local! {
    static CASE_NO: Cell<u64> = const { Cell::new(0) };
}

struct Stream {
    full: Vec<ReferenceDescription>,
    got: Vec<ReferenceDescription>,
    cp: ByteString,
    consumed: Vec<ByteString>,
    active: bool,
    pages: usize,
}

fn browse_description(hub: &NodeId, d: &Desc) -> BrowseDescription {
    BrowseDescription {
        node_id: hub.clone(),
        browse_direction: [BrowseDirection::Forward, BrowseDirection::Inverse, BrowseDirection::Both][d.direction as usize % 3],
        reference_type_id: match d.reference_type % 6 {
            0 => NodeId::null(),
            1 => ReferenceTypeId::Organizes.into(),
            2 => ReferenceTypeId::HasComponent.into(),
            3 => ReferenceTypeId::HierarchicalReferences.into(),
            4 => ReferenceTypeId::Aggregates.into(),
            _ => ReferenceTypeId::HasProperty.into(),
        },
        include_subtypes: d.include_subtypes,
        node_class_mask: d.node_class_mask as u32 % 4,
        result_mask: d.result_mask as u32 & 0x3f,
    }
}

fn browse(conn: &mut Conn, token: &NodeId, bd: BrowseDescription, max: u32) -> Result<BrowseResult, StatusCode> {
    let h = conn.header(token);
    match conn.call(BrowseRequest { request_header: h, view: ViewDescription { view_id: NodeId::null(), timestamp: DateTime::null(), view_version: 0 }, requested_max_references_per_node: max, nodes_to_browse: Some(vec![bd]) }) {
        SupportedMessage::BrowseResponse(r) => r.results.and_then(|mut v| if v.is_empty() { None } else { Some(v.remove(0)) }).ok_or(StatusCode::BadUnexpectedError),
        other => Err(srv::status_of(&other)),
    }
}

fn browse_next(conn: &mut Conn, token: &NodeId, cp: &ByteString, release: bool) -> Result<Option<BrowseResult>, StatusCode> {
    let h = conn.header(token);
    match conn.call(BrowseNextRequest { request_header: h, release_continuation_points: release, continuation_points: Some(vec![cp.clone()]) }) {
        SupportedMessage::BrowseNextResponse(r) => Ok(r.results.and_then(|mut v| if v.is_empty() { None } else { Some(v.remove(0)) })),
        other => Err(srv::status_of(&other)),
    }
}

fn run(ctx: &Ctx, c: &Case) -> PResult {
    let server = srv::worker_server(true);
    let mut conn = Conn::open(server.clone());
    let token = conn.session();
    let session = conn.session_object(&token).unwrap();
    let case_no = CASE_NO.with(|n| {
        n.set(n.get() + 1);
        n.get()
    });
    let nid = |s: &str| NodeId::new(1, format!("c30-{}-{}-{}", std::process::id(), case_no, s));
    let hub = nid("hub");
    let mut all_nodes = vec![hub.clone(), nid("x0"), nid("x1")];
    {
        let a = server.address_space();
        let mut a = a.write();
        ObjectBuilder::new(&hub, "hub", "hub").insert(&mut a);
        ObjectBuilder::new(&nid("x0"), "x0", "x0").insert(&mut a);
        ObjectBuilder::new(&nid("x1"), "x1", "x1").insert(&mut a);
        a.insert_reference(&nid("x0"), &nid("x1"), ReferenceTypeId::Organizes);
        for (i, (is_var, rt, inverse)) in c.targets.iter().enumerate() {
            let t = nid(&format!("t{}", i));
            if *is_var {
                VariableBuilder::new(&t, format!("t{}", i).as_str(), "t").data_type(DataTypeId::Int32).value(i as i32).insert(&mut a);
            } else {
                ObjectBuilder::new(&t, format!("t{}", i).as_str(), "t").insert(&mut a);
            }
            let rt = [ReferenceTypeId::Organizes, ReferenceTypeId::HasComponent, ReferenceTypeId::HasProperty][*rt as usize % 3];
            a.insert_reference(&hub, &t, rt);
            if *inverse {
                a.insert_reference(&t, &hub, ReferenceTypeId::Organizes);
            }
            all_nodes.push(t);
        }
    }
    let cleanup = |server: &Server| {
        let a = server.address_space();
        let mut a = a.write();
        for n in &all_nodes {
            a.delete(n, true);
        }
        a.delete(&nid("extra"), true);
    };

    let mut streams: Vec<Stream> = c.streams.iter().map(|_| Stream { full: Vec::new(), got: Vec::new(), cp: ByteString::null(), consumed: Vec::new(), active: false, pages: 0 }).collect();
    // model of the session's continuation points: (id, epoch of the address space at creation)
    let mut epoch = 0u32;
    let mut deque: VecDeque<(ByteString, u32)> = VecDeque::new();
    let mut add_cp = |deque: &mut VecDeque<(ByteString, u32)>, id: &ByteString, epoch: u32| {
        while deque.len() >= MAX_CP {
            deque.pop_front();
        }
        deque.push_back((id.clone(), epoch));
    };
    let mut interesting = false;
    let mut extra_exists = false;

    let verdict = (|| -> PResult {
        for (i, op) in c.ops.iter().enumerate() {
            match op {
                Op::Start(k) => {
                    let k = *k as usize % streams.len();
                    let d = &c.streams[k];
                    let bd = browse_description(&hub, d);
                    // the reference: one unlimited browse of the same description on the same address space
                    let full = match ctx.guard(|| browse(&mut conn, &token, bd.clone(), 0))? {
                        Ok(r) => r,
                        Err(e) => return ctx.fail("browse/refused", format!("step {}: {}", i, e)),
                    };
                    if !full.continuation_point.is_null() {
                        return ctx.fail("browse/unlimited-browse-paged", format!("step {}: an unlimited browse of {} references returned a continuation point", i, c.targets.len()));
                    }
                    let first = match ctx.guard(|| browse(&mut conn, &token, bd.clone(), d.page_size as u32))? {
                        Ok(r) => r,
                        Err(e) => return ctx.fail("browse/refused", format!("step {}: {}", i, e)),
                    };
                    let s = &mut streams[k];
                    s.full = full.references.unwrap_or_default();
                    s.got = first.references.clone().unwrap_or_default();
                    s.cp = first.continuation_point.clone();
                    s.active = !s.cp.is_null();
                    s.pages = 1;
                    if s.active {
                        add_cp(&mut deque, &s.cp, epoch);
                    }
                    if d.page_size > 0 && s.got.len() > d.page_size as usize {
                        return ctx.fail("page/too-long", format!("step {}: page of {} references for page size {}", i, s.got.len(), d.page_size));
                    }
                    if !s.active && s.got != s.full {
                        return ctx.fail("pages/differ-from-unpaged", format!("step {}: single page {:?} vs unlimited browse {:?} (description {:?})", i, s.got.len(), s.full.len(), d));
                    }
                }
                Op::Next(k) => {
                    let k = *k as usize % streams.len();
                    if !streams[k].active {
                        continue;
                    }
                    let cp = streams[k].cp.clone();
                    // the service first drops every point created before the last modification
                    deque.retain(|(_, e)| *e == epoch);
                    let valid = deque.iter().any(|(id, _)| *id == cp);
                    deque.retain(|(id, _)| *id != cp);
                    let r = match ctx.guard(|| browse_next(&mut conn, &token, &cp, false))? {
                        Ok(Some(r)) => r,
                        Ok(None) => return ctx.fail("browse-next/no-result", format!("step {}", i)),
                        Err(e) => return ctx.fail("browse-next/refused", format!("step {}: {}", i, e)),
                    };
                    let s = &mut streams[k];
                    s.consumed.push(cp.clone());
                    if !valid {
                        interesting = true;
                        ctx.class("next_on_invalidated_point");
                        s.active = false;
                        if r.status_code != StatusCode::BadContinuationPointInvalid {
                            return ctx.fail(
                                "continuation-point/stale-accepted",
                                format!("step {}: a continuation point that was pushed out by newer ones or created before an address space change was answered with {} and {} references", i, r.status_code, r.references.map(|v| v.len()).unwrap_or(0)),
                            );
                        }
                        continue;
                    }
                    if r.status_code.is_bad() {
                        return ctx.fail("continuation-point/valid-refused", format!("step {}: page {} of stream {} refused with {}", i, s.pages + 1, k, r.status_code));
                    }
                    let page = r.references.unwrap_or_default();
                    let ps = c.streams[k].page_size as usize;
                    if page.len() > ps {
                        return ctx.fail("page/too-long", format!("step {}: page of {} references for page size {}", i, page.len(), ps));
                    }
                    if page.is_empty() {
                        return ctx.fail("page/empty", format!("step {}: BrowseNext returned an empty page", i));
                    }
                    s.got.extend(page);
                    s.pages += 1;
                    s.cp = r.continuation_point.clone();
                    if s.cp.is_null() {
                        s.active = false;
                        if s.pages >= 3 {
                            interesting = true;
                        }
                        ctx.class("stream_completed");
                        if s.got != s.full {
                            let pos = s.got.iter().zip(s.full.iter()).position(|(a, b)| a != b).unwrap_or(s.got.len().min(s.full.len()));
                            return ctx.fail(
                                "pages/differ-from-unpaged",
                                format!("step {}: {} pages of size {} give {} references, the unlimited browse {}; first difference at index {} (description {:?})", i, s.pages, ps, s.got.len(), s.full.len(), pos, c.streams[k]),
                            );
                        }
                    } else {
                        add_cp(&mut deque, &s.cp, epoch);
                        if s.got.len() > s.full.len() || s.got[..] != s.full[..s.got.len()] {
                            return ctx.fail("pages/differ-from-unpaged", format!("step {}: pages so far are not a prefix of the unlimited browse (description {:?})", i, c.streams[k]));
                        }
                    }
                }
                Op::Release(k) => {
                    let k = *k as usize % streams.len();
                    if !streams[k].active {
                        continue;
                    }
                    let cp = streams[k].cp.clone();
                    deque.retain(|(id, _)| *id != cp);
                    if let Err(e) = ctx.guard(|| browse_next(&mut conn, &token, &cp, true))? {
                        return ctx.fail("release/refused", format!("step {}: {}", i, e));
                    }
                    // stays "active" so that the next Next presents the released point
                    interesting = true;
                    ctx.class("released");
                }
                Op::ReuseConsumed(k) => {
                    let k = *k as usize % streams.len();
                    let Some(cp) = streams[k].consumed.last().cloned() else { continue };
                    deque.retain(|(_, e)| *e == epoch);
                    let r = ctx.guard(|| browse_next(&mut conn, &token, &cp, false))?;
                    ctx.class("reuse_of_consumed_point");
                    match r {
                        Ok(Some(r)) if r.status_code == StatusCode::BadContinuationPointInvalid => {}
                        other => return ctx.fail("continuation-point/used-twice", format!("step {}: a continuation point that was already used was answered with {:?}", i, other.map(|r| r.map(|r| (r.status_code, r.references.map(|v| v.len())))))),
                    }
                }
                Op::Modify(kind) => {
                    let a = server.address_space();
                    let mut a = a.write();
                    match kind % 4 {
                        0 => {
                            if a.has_reference(&nid("x1"), &nid("x0"), ReferenceTypeId::Organizes) {
                                continue;
                            }
                            a.insert_reference(&nid("x1"), &nid("x0"), ReferenceTypeId::Organizes);
                        }
                        1 => {
                            if extra_exists {
                                continue;
                            }
                            ObjectBuilder::new(&nid("extra"), "extra", "extra").insert(&mut a);
                            extra_exists = true;
                        }
                        2 => {
                            if !a.delete_reference(&nid("x0"), &nid("x1"), ReferenceTypeId::Organizes) {
                                continue;
                            }
                        }
                        _ => {
                            if !extra_exists {
                                continue;
                            }
                            a.delete(&nid("extra"), true);
                            extra_exists = false;
                        }
                    }
                    epoch += 1;
                    ctx.class(&format!("address_space_modified_kind_{}", kind % 4));
                }
                Op::Flood(n) => {
                    for j in 0..*n {
                        let bd = BrowseDescription {
                            node_id: ObjectId::RootFolder.into(),
                            browse_direction: BrowseDirection::Forward,
                            reference_type_id: NodeId::null(),
                            include_subtypes: true,
                            node_class_mask: 0,
                            result_mask: 0x3f,
                        };
                        match ctx.guard(|| browse(&mut conn, &token, bd, 1))? {
                            Ok(r) if !r.continuation_point.is_null() => add_cp(&mut deque, &r.continuation_point, epoch),
                            Ok(_) => return ctx.fail("flood/no-continuation-point", format!("step {}: browse {} of the root folder with page size 1 gave no continuation point", i, j)),
                            Err(e) => return ctx.fail("browse/refused", format!("step {}: {}", i, e)),
                        }
                    }
                    ctx.class("flood");
                }
            }
            let held = session.read().verif_browse_continuation_points_len();
            if held > MAX_CP {
                return ctx.fail("continuation-points/unbounded", format!("step {}: the session holds {} continuation points", i, held));
            }
        }
        Ok(())
    })();
    cleanup(&server);
    if interesting {
        ctx.nontrivial();
    }
    verdict
}

pub fn def() -> PropDef {
    PropDef {
        id: "C30",
        rule: "a hub node with 0..39 references (Organizes / HasComponent / HasProperty to Objects and Variables, some with an inverse reference back) in the server's address space, up to three concurrent paged browses of it (direction x reference type filter null / Organizes / HasComponent / HierarchicalReferences / Aggregates / HasProperty x include subtypes x node class mask x result mask x page size 1..44), histories of up to 41 operations: start, BrowseNext, release, re-use of a consumed point, address space changes that do not touch the hub (add / delete a reference, add / delete a node), floods of 1..23 further continuation points; oracle: concatenated pages equal the unlimited Browse of the same description (same order), a point works once, is invalid after release, after any address space change and once 20 newer points exist (model of the session's deque), the session never holds more than 20; non-trivial = a stream of at least 3 pages completed, or a release / invalidated point was exercised; distinct = distinct case",
        assumptions: &["one session per case, created before the first browse (creating a session registers diagnostics nodes, i.e. modifies the address space)", "the unlimited browse is the reference; fewer than 255 references, the server's own cap"],
        abort_possible: false,
        parts: |tier| vec![part("paged_browse", tier.pick(1500, 40000), case(), run)],
    }
}

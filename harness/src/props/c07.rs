//! C07 — Any message survives chunking and channel security unchanged.
use crate::engine::*;
use crate::filler::Filler;
use crate::fixtures;
use crate::service_fillers::*;
use bytes::BytesMut;
use opcua::core::comms::chunker::Chunker;
use opcua::core::comms::message_chunk::{MessageChunk, MessageIsFinalType};
use opcua::core::comms::secure_channel::SecureChannel;
use opcua::core::comms::tcp_codec::{Message, TcpCodec};
use opcua::core::supported_message::SupportedMessage;
use opcua::crypto::SecurityPolicy;
use opcua::types::*;
use proptest::prelude::*;
use serde::{Deserialize, Serialize};
use tokio_util::codec::Decoder;

#[derive(Clone, Debug, Serialize, Deserialize)]
pub struct Case {
    /// 0..11 policy/mode pair
    pub pm: u8,
    pub chunk_size: u8,
    pub client_sends: bool,
    /// payload bytes of the message (steers the number of chunks)
    pub payload: u32,
    /// 0 = WriteRequest with a byte string payload, otherwise a generated message
    pub generated: Option<(u16, Vec<u8>)>,
    pub start_seq: u32,
    pub request_id: u32,
    pub big_keys: u8,
}

pub const CHUNK_SIZES: &[usize] = &[0, 8196, 8197, 8211, 9001, 16384, 65535];

pub fn payload_message(n: usize) -> SupportedMessage {
    // several values of at most 60 000 bytes each, so that every byte string stays inside the default decoding limit
    let mut nodes = Vec::new();
    let mut left = n;
    let mut k = 0usize;
    loop {
        let take = left.min(60_000);
        let bytes: Vec<u8> = (0..take).map(|i| ((i + k * 7) % 251) as u8).collect();
        nodes.push(WriteValue { node_id: NodeId::new(2, "payload"), attribute_id: 13, index_range: UAString::null(), value: DataValue::value_only(ByteString::from(bytes)) });
        left -= take;
        k += 1;
        if left == 0 {
            break;
        }
    }
    WriteRequest { request_header: RequestHeader::dummy(), nodes_to_write: Some(nodes) }.into()
}

/// Secures every chunk with `from`, frames the byte stream with the codec, verifies with `to`, reassembles.
/// Returns (decoded message, secured chunk sizes, chunk count)
pub fn transfer(ctx: &Ctx, from: &SecureChannel, to: &mut SecureChannel, chunks: &[MessageChunk], start_seq: u32) -> Result<(SupportedMessage, Vec<usize>), Failure> {
    let mut wire = BytesMut::new();
    let mut sizes = Vec::new();
    for ch in chunks {
        let mut buf = vec![0u8; ch.data.len() * 2 + 8192];
        let n = match ctx.guard(|| from.apply_security(ch, &mut buf))? {
            Ok(n) => n,
            Err(e) => return ctx.fail("apply_security-error", format!("apply_security failed with {} on a chunk of {} bytes", e, ch.data.len())),
        };
        sizes.push(n);
        wire.extend_from_slice(&buf[..n]);
    }
    let mut codec = TcpCodec::new(DecodingOptions { max_message_size: 0, ..DecodingOptions::default() });
    let mut received = Vec::new();
    loop {
        match codec.decode(&mut wire) {
            Ok(Some(Message::Chunk(c))) => received.push(c),
            Ok(Some(other)) => return ctx.fail("framing/not-a-chunk", format!("codec produced {:?}", other)),
            Ok(None) => break,
            Err(e) => return ctx.fail("framing/error", format!("codec failed on the sender's own output: {}", e)),
        }
    }
    if received.len() != chunks.len() || !wire.is_empty() {
        return ctx.fail("framing/count", format!("{} chunks sent, {} frames decoded, {} bytes left over", chunks.len(), received.len(), wire.len()));
    }
    let mut plain = Vec::new();
    for (i, c) in received.iter().enumerate() {
        match ctx.guard(|| to.verify_and_remove_security(&c.data))? {
            Ok(p) => plain.push(p),
            Err(e) => return ctx.fail("verify-error", format!("receiver rejected the sender's chunk #{} of {}: {}", i, received.len(), e)),
        }
    }
    match ctx.guard(|| Chunker::validate_chunks(start_seq, to, &plain))? {
        Ok(last) => {
            if last != start_seq.wrapping_add(plain.len() as u32 - 1) {
                return ctx.fail("validate/last-seq", format!("validate_chunks returned {} for start {} and {} chunks", last, start_seq, plain.len()));
            }
        }
        Err(e) => return ctx.fail("validate-error", format!("validate_chunks rejected the sender's chunks: {}", e)),
    }
    match ctx.guard(|| Chunker::decode(&plain, to, None))? {
        Ok(m) => Ok((m, sizes)),
        Err(e) => ctx.fail("reassembly/decode-error", format!("Chunker::decode of the verified chunks failed: {}", e)),
    }
}

fn keys_for(policy: SecurityPolicy, big: u8) -> (&'static str, &'static str) {
    let sha1 = matches!(policy, SecurityPolicy::Basic128Rsa15 | SecurityPolicy::Basic256);
    match (sha1, big % 3) {
        (true, 0) => ("rsa1024a", "rsa1024b"),
        (true, 1) => ("rsa2048a", "rsa1024b"),
        (true, _) => ("rsa1024a", "rsa2048b"),
        (false, 0) => ("rsa2048a", "rsa2048b"),
        (false, 1) => ("rsa4096a", "rsa2048b"),
        (false, _) => ("rsa2048a", "rsa4096b"),
    }
}

fn symmetric(ctx: &Ctx, c: &Case) -> PResult {
    let (policy, mode) = fixtures::policy_mode(c.pm as usize);
    let max_chunk = CHUNK_SIZES[c.chunk_size as usize % CHUNK_SIZES.len()];
    let (ck, sk) = keys_for(policy, c.big_keys);
    let (client, server) = fixtures::channel_pair(policy, mode, ck, sk, &fixtures::nonce_for(policy, 3), &fixtures::nonce_for(policy, 77));
    let (from, mut to) = if c.client_sends { (client, server) } else { (server, client) };
    let msg = match &c.generated {
        Some((i, data)) => {
            let mut f = Filler::new(data);
            let mut m = fill_supported_message(*i as usize, &mut f);
            // OPN/CLO messages travel in other chunk types; this part is about MSG chunks
            if matches!(m, SupportedMessage::OpenSecureChannelRequest(_) | SupportedMessage::OpenSecureChannelResponse(_) | SupportedMessage::CloseSecureChannelRequest(_) | SupportedMessage::CloseSecureChannelResponse(_)) {
                m = payload_message(c.payload as usize % 300);
            }
            m
        }
        None => payload_message(c.payload as usize),
    };
    let start = c.start_seq;
    let chunks = match ctx.guard(|| Chunker::encode(start, c.request_id, 0, max_chunk, &from, &msg))? {
        Ok(ch) => ch,
        Err(e) => return ctx.fail("encode-error", format!("Chunker::encode failed with {} (policy {:?} mode {:?} chunk size {})", e, policy, mode, max_chunk)),
    };
    let n = chunks.len();
    let cell = format!("{:?}/{:?}/chunks_{}", policy, mode, match n { 1 => "1", 2 => "2", _ => "3plus" });
    ctx.class(&cell);
    if policy != SecurityPolicy::None && n >= 2 {
        ctx.nontrivial();
    }
    // sender side invariants on the plain chunks
    for (i, ch) in chunks.iter().enumerate() {
        let info = ch.chunk_info(&from).map_err(|e| Failure { sig: "sender/chunk_info".into(), detail: e.to_string() })?;
        if info.sequence_header.sequence_number != start.wrapping_add(i as u32) {
            return ctx.fail("sender/sequence-number", format!("chunk {} of {} has sequence number {} (start {})", i, n, info.sequence_header.sequence_number, start));
        }
        if info.sequence_header.request_id != c.request_id {
            return ctx.fail("sender/request-id", format!("chunk {} has request id {} instead of {}", i, info.sequence_header.request_id, c.request_id));
        }
        let want = if i == n - 1 { MessageIsFinalType::Final } else { MessageIsFinalType::Intermediate };
        if info.message_header.is_final != want {
            return ctx.fail("sender/final-flag", format!("chunk {} of {} has is_final {:?}", i, n, info.message_header.is_final));
        }
    }
    let multi = n >= 2;
    let (back, sizes) = match transfer(ctx, &from, &mut to, &chunks, start) {
        Ok(x) => x,
        Err(f) => {
            let sig = if f.sig.starts_with("reassembly") && multi && mode != MessageSecurityMode::None { format!("{}/symmetric-multi-chunk", f.sig) } else { f.sig };
            return Err(Failure { sig, detail: f.detail });
        }
    };
    if max_chunk > 0 {
        if let Some(s) = sizes.iter().find(|s| **s > max_chunk) {
            return ctx.fail("chunk-size-overshoot", format!("{:?}/{:?}: secured chunk of {} bytes exceeds the negotiated chunk size {}", policy, mode, s, max_chunk));
        }
    }
    if back != msg {
        // C01's normal form: dimensions of empty arrays and NaN payloads are not compared
        let d1 = super::c01::norm_debug(&back);
        let d2 = super::c01::norm_debug(&msg);
        if d1 != d2 {
            let sig = if multi && mode != MessageSecurityMode::None { "reassembly/differs/symmetric-multi-chunk" } else { "reassembly/differs" };
            return ctx.fail(sig, format!("{:?}/{:?} chunk size {} chunks {}: decoded message differs from the original ({} vs {} chars of debug text)", policy, mode, max_chunk, n, d1.len(), d2.len()));
        }
    }
    Ok(())
}

#[derive(Clone, Debug, Serialize, Deserialize)]
pub struct OpnCase {
    pub policy: u8,
    pub mode_encrypt: bool,
    pub keys: u8,
    pub response: bool,
    pub nonce_fill: u8,
    /// extra bytes appended to the nonce: the chunk layer has to carry an OPN body of any length, and the padding of the
    /// asymmetric block depends on it (every residue of the plain text block size has to occur)
    #[serde(default)]
    pub nonce_extra: u16,
}

fn asymmetric(ctx: &Ctx, c: &OpnCase) -> PResult {
    let policy = fixtures::POLICIES[c.policy as usize % 5];
    let mode = if c.mode_encrypt { MessageSecurityMode::SignAndEncrypt } else { MessageSecurityMode::Sign };
    let (ck, sk) = keys_for(policy, c.keys);
    let (client, server) = fixtures::channel_pair(policy, mode, ck, sk, &fixtures::nonce_for(policy, 3), &fixtures::nonce_for(policy, 77));
    let nonce = ByteString::from(vec![c.nonce_fill; policy.secure_channel_nonce_length() + c.nonce_extra as usize]);
    let (from, mut to, msg): (SecureChannel, SecureChannel, SupportedMessage) = if c.response {
        let m = OpenSecureChannelResponse {
            response_header: ResponseHeader::new_good(&RequestHeader::dummy()),
            server_protocol_version: 0,
            security_token: ChannelSecurityToken { channel_id: 7, token_id: 2, created_at: DateTime::from(1_000_000i64), revised_lifetime: 60000 },
            server_nonce: nonce,
        };
        (server, client, m.into())
    } else {
        let m = OpenSecureChannelRequest { request_header: RequestHeader::dummy(), client_protocol_version: 0, request_type: SecurityTokenRequestType::Issue, security_mode: mode, client_nonce: nonce, requested_lifetime: 60000 };
        (client, server, m.into())
    };
    ctx.class(&format!("opn/{:?}/{}->{}", policy, ck, sk));
    if ck.contains("4096") || sk.contains("4096") {
        ctx.nontrivial();
        ctx.class("opn_with_4096_bit_key");
    }
    let chunks = match ctx.guard(|| Chunker::encode(1, 1, 0, 0, &from, &msg))? {
        Ok(ch) => ch,
        Err(e) => return ctx.fail("opn/encode-error", format!("{}", e)),
    };
    let (back, _) = transfer(ctx, &from, &mut to, &chunks, 1).map_err(|f| Failure { sig: format!("opn/{}", f.sig), detail: format!("{:?} keys {}->{} response={}: {}", policy, ck, sk, c.response, f.detail) })?;
    if back != msg {
        return ctx.fail("opn/differs", format!("{:?}: {:?} came back as {:?}", policy, msg, back));
    }
    Ok(())
}

/// payload sizes around k x (body per chunk) for the chunk size, so block and chunk boundaries are hit
fn payload_strategy() -> impl Strategy<Value = u32> {
    prop_oneof![
        0u32..300,
        (1u32..6, proptest::sample::select(vec![8100u32, 8196, 9001, 16384]), -40i32..40).prop_map(|(k, cs, d)| (k * cs) .saturating_add_signed(d).saturating_sub(k * 60)),
        (1u32..4, -20i32..20).prop_map(|(k, d)| (k * 8136).saturating_add_signed(d)),
        8000u32..70_000,
        (60_000u32..200_000),
    ]
}

pub fn def() -> PropDef {
    PropDef {
        id: "C07",
        rule: "the 11 valid policy x mode pairs (enumerated by index) x chunk size limit {0, 8196, 8197, 8211, 9001, 16384, 65535} x sender role x message (WriteRequest with a patterned byte string steered to 1..6 chunks, sizes drawn around multiples of the per-chunk body size; or a generated message of any service) x key sizes; sender pipeline Chunker::encode -> apply_security, receiver TcpCodec -> verify_and_remove_security -> validate_chunks -> Chunker::decode; plus OpenSecureChannel request/response under every policy with 1024/2048/4096-bit keys and nonces lengthened by 0..519 bytes, and a sweep of 505 consecutive OPN body lengths towards a 4096-bit receiver key (every padding amount); non-trivial = policy != None and >= 2 chunks, or an OPN with a 4096-bit key; distinct = distinct case",
        assumptions: &["keys and certificates are committed fixtures; key selection is generated", "chunk-count minimality is not asserted"],
        abort_possible: false,
        parts: |tier| {
            vec![
                part(
                    "symmetric",
                    tier.pick(1_200, 40_000),
                    (0u8..11, 0u8..CHUNK_SIZES.len() as u8, any::<bool>(), payload_strategy(), proptest::option::weighted(0.25, (any::<u16>(), proptest::collection::vec(any::<u8>(), 0..300))), prop_oneof![1u32..1000, Just(u32::MAX - 3)], 1u32..100_000, 0u8..3)
                        .prop_map(|(pm, chunk_size, client_sends, payload, generated, start_seq, request_id, big_keys)| Case { pm, chunk_size, client_sends, payload, generated, start_seq: start_seq.min(u32::MAX - 64), request_id, big_keys }),
                    symmetric,
                ),
                part(
                    "asymmetric_opn",
                    tier.pick(150, 4_000),
                    (0u8..5, any::<bool>(), 0u8..3, any::<bool>(), any::<u8>(), prop_oneof![2 => Just(0u16), 3 => 0u16..520]).prop_map(|(policy, mode_encrypt, keys, response, nonce_fill, nonce_extra)| OpnCase { policy, mode_encrypt, keys, response, nonce_fill, nonce_extra }),
                    asymmetric,
                ),
                // every padding amount of the asymmetric block: consecutive body lengths over one full plain text block of the
                // largest receiver key (4096 bit: 470 bytes with OAEP, 501 with PKCS#1)
                part_enum(
                    "opn_padding_sweep",
                    |tier| {
                        let policies: Vec<u8> = if tier == Tier::Quick { vec![2] } else { vec![0, 1, 2, 3, 4] };
                        let mut v = Vec::new();
                        for policy in policies {
                            for extra in 0u16..505 {
                                v.push(OpnCase { policy, mode_encrypt: true, keys: 2, response: extra % 2 == 1 && tier == Tier::Thorough, nonce_fill: 0x5a, nonce_extra: extra });
                            }
                        }
                        Box::new(v.into_iter())
                    },
                    asymmetric,
                ),
            ]
        },
    }
}

//! C38 — Server locks are always taken in one global order (lock-order graph over generated histories).
use crate::engine::*;
use crate::props::c33;
use opcua::verif::locks;
use proptest::prelude::*;
use serde::{Deserialize, Serialize};
use std::cell::RefCell;
use std::collections::{BTreeMap, BTreeSet};

/// (held class, acquired class) -> (site where the first was taken, site where the second was taken, how often)
type Edges = BTreeMap<(String, String), (String, String, u64)>;

thread_local! {
    /// union over every history of the run: edge -> (sites, the first history that produced it)
    static UNION: RefCell<BTreeMap<(String, String), (String, String, serde_json::Value)>> = RefCell::new(BTreeMap::new());
    /// classes that were taken for writing (or exclusively) somewhere in the run
    static WRITTEN: RefCell<BTreeSet<String>> = RefCell::new(BTreeSet::new());
    /// class -> (description, history) of a read lock taken again while the same thread holds it for reading
    static RECURSIVE_READS: RefCell<BTreeMap<String, (String, serde_json::Value)>> = RefCell::new(BTreeMap::new());
}

fn short(class: &str) -> String {
    if class.contains("dyn ") && class.contains("callbacks::Method") {
        return "MethodHandler".to_string();
    }
    if class.contains("Vec<") && class.contains("TcpTransport") {
        return "Connections".to_string();
    }
    // the last path segment of the outermost type, generic arguments dropped
    let outer = class.split('<').next().unwrap_or(class);
    outer.rsplit("::").next().unwrap_or(outer).to_string()
}

/// the order documented in message_handler.rs: ServerState, then Session, then AddressSpace
const DOCUMENTED: [(&str, &str); 3] = [("ServerState", "Session"), ("Session", "AddressSpace"), ("ServerState", "AddressSpace")];

fn find_cycle(edges: &BTreeSet<(String, String)>) -> Option<Vec<String>> {
    let nodes: BTreeSet<&String> = edges.iter().flat_map(|(a, b)| [a, b]).collect();
    fn dfs<'a>(n: &'a String, edges: &'a BTreeSet<(String, String)>, stack: &mut Vec<&'a String>, done: &mut BTreeSet<&'a String>) -> Option<Vec<String>> {
        if let Some(pos) = stack.iter().position(|x| *x == n) {
            return Some(stack[pos..].iter().map(|s| (*s).clone()).chain(std::iter::once(n.clone())).collect());
        }
        if done.contains(n) {
            return None;
        }
        stack.push(n);
        for (a, b) in edges.iter() {
            if a == n {
                if let Some(c) = dfs(b, edges, stack, done) {
                    return Some(c);
                }
            }
        }
        stack.pop();
        done.insert(n);
        None
    }
    let mut done = BTreeSet::new();
    for n in nodes {
        let mut stack = Vec::new();
        if let Some(c) = dfs(n, edges, &mut stack, &mut done) {
            return Some(c);
        }
    }
    None
}

/// Replays the recorded events of one thread; returns the edges and any same-instance re-acquisition
fn analyse(events: &[locks::LockEvent]) -> (Edges, Vec<String>, usize) {
    let (e, r, _, m) = analyse_full(events);
    (e, r, m)
}

fn analyse_full(events: &[locks::LockEvent]) -> (Edges, Vec<String>, Vec<(String, String)>, usize) {
    let mut held: Vec<(String, usize, &'static str, String)> = Vec::new();
    let mut edges: Edges = BTreeMap::new();
    let mut reacquired = Vec::new();
    let mut recursive_reads: Vec<(String, String)> = Vec::new();
    let mut max_held = 0;
    for ev in events {
        let class = short(ev.class);
        let site = format!("{}:{}", ev.file.rsplit("lib/src/").next().unwrap_or(ev.file), ev.line);
        if ev.acquire {
            for (hc, hi, hm, hs) in &held {
                if *hi == ev.instance {
                    // parking_lot locks are not re-entrant: write-after-anything and anything-after-write deadlock at once,
                    // read-after-read deadlocks only when a writer waits in between (judged over the whole run: does anybody
                    // write this class?)
                    let d = format!("{} taken for {} at {} while already held for {} (taken at {})", class, ev.mode, site, hm, hs);
                    if ev.mode == "read" && *hm == "read" {
                        recursive_reads.push((class.clone(), d));
                    } else {
                        reacquired.push(d);
                    }
                } else {
                    let e = edges.entry((hc.clone(), class.clone())).or_insert((hs.clone(), site.clone(), 0));
                    e.2 += 1;
                }
            }
            held.push((class, ev.instance, ev.mode, site));
            max_held = max_held.max(held.len());
        } else if let Some(pos) = held.iter().rposition(|h| h.1 == ev.instance && h.2 == ev.mode) {
            held.remove(pos);
        }
    }
    (edges, reacquired, recursive_reads, max_held)
}

fn judge(ctx: &Ctx, edges: &Edges, reacquired: &[String]) -> PResult {
    if let Some(r) = reacquired.first() {
        return ctx.fail(format!("same-lock-taken-twice/{}", r.split(' ').next().unwrap_or("")), r.clone());
    }
    for ((a, b), (sa, sb, _)) in edges {
        if a == b {
            return ctx.fail(format!("two-locks-of-one-class/{}", a), format!("a second {} is locked at {} while another one is held (taken at {}): two tasks doing this with the objects swapped deadlock", a, sb, sa));
        }
        for (first, second) in DOCUMENTED {
            if a == second && b == first {
                return ctx.fail(format!("against-documented-order/{}-then-{}", a, b), format!("{} is locked at {} while {} is held (taken at {}); the documented order is {} before {}", b, sb, a, sa, first, second));
            }
        }
    }
    let set: BTreeSet<(String, String)> = edges.keys().cloned().chain(DOCUMENTED.iter().map(|(a, b)| (a.to_string(), b.to_string()))).collect();
    if let Some(cycle) = find_cycle(&set) {
        let sites: Vec<String> = cycle.windows(2).map(|w| edges.get(&(w[0].clone(), w[1].clone())).map(|e| format!("{} (held, {}) -> {} ({})", w[0], e.0, w[1], e.1)).unwrap_or_else(|| format!("{} -> {} (documented)", w[0], w[1]))).collect();
        return ctx.fail(format!("lock-order-cycle/{}", cycle.join(">")), format!("the lock classes are taken in a cyclic order: {}", sites.join("; ")));
    }
    Ok(())
}

fn run(ctx: &Ctx, c: &c33::Case, modify: bool) -> PResult {
    // the server is built before recording starts: start-up runs while no other task exists
    let _ = crate::srv::worker_server(modify);
    let _ = locks::take_events();
    crate::srv::set_lock_recording(true);
    // the verdict of the history itself is C33's business; here only the locks it takes are looked at
    let _ = c33::run_with(ctx, c, modify);
    crate::srv::set_lock_recording(false);
    let events = locks::take_events();
    let (edges, reacquired, recursive_reads, max_held) = analyse_full(&events);
    WRITTEN.with(|w| {
        let mut w = w.borrow_mut();
        for e in events.iter().filter(|e| e.acquire && e.mode != "read") {
            w.insert(short(e.class));
        }
    });
    for (class, d) in recursive_reads {
        ctx.class(&format!("recursive_read_of_{}", class));
        let cj = serde_json::json!({ "modify": modify, "case": c });
        RECURSIVE_READS.with(|r| {
            r.borrow_mut().entry(class).or_insert((d, cj));
        });
    }
    if max_held >= 2 {
        ctx.nontrivial();
    }
    ctx.class_n("lock_acquisitions", events.iter().filter(|e| e.acquire).count() as u64);
    for ((a, b), (_, _, n)) in &edges {
        ctx.class_n(&format!("edge {} -> {}", a, b), *n);
    }
    let case_json = serde_json::json!({ "modify": modify, "case": c });
    UNION.with(|u| {
        let mut u = u.borrow_mut();
        for ((a, b), (sa, sb, _)) in &edges {
            u.entry((a.clone(), b.clone())).or_insert((sa.clone(), sb.clone(), case_json.clone()));
        }
    });
    judge(ctx, &edges, &reacquired)
}

#[derive(Clone, Debug, Serialize, Deserialize)]
pub struct Union {
    /// the histories that together produce the conflicting edges: {"modify": bool, "case": C33 case} or {"live": [ops]}
    pub histories: Vec<serde_json::Value>,
}

/// after the generated parts: the union of all edges seen in this run; if it has a cycle, the histories that contributed the
/// edges of the cycle are replayed together
fn union_cases(_tier: Tier) -> Box<dyn Iterator<Item = Union>> {
    let (set, by_edge): (BTreeSet<(String, String)>, BTreeMap<(String, String), serde_json::Value>) = UNION.with(|u| {
        let u = u.borrow();
        (u.keys().cloned().chain(DOCUMENTED.iter().map(|(a, b)| (a.to_string(), b.to_string()))).collect(), u.iter().map(|(k, v)| (k.clone(), v.2.clone())).collect())
    });
    match find_cycle(&set) {
        None => Box::new(std::iter::once(Union { histories: Vec::new() })),
        Some(cycle) => {
            let histories: Vec<serde_json::Value> = cycle.windows(2).filter_map(|w| by_edge.get(&(w[0].clone(), w[1].clone()))).cloned().collect();
            Box::new(std::iter::once(Union { histories }))
        }
    }
}

fn run_union(ctx: &Ctx, u: &Union) -> PResult {
    let mut all: Edges = BTreeMap::new();
    let mut re = Vec::new();
    for h in &u.histories {
        let events = if let Some(ops) = h.get("live") {
            let ops: Vec<LiveOp> = serde_json::from_value(ops.clone()).unwrap_or_default();
            match live_events(&ops) {
                Ok((ev, _)) => ev,
                Err(f) => return Err(f),
            }
        } else {
            let modify = h.get("modify").and_then(|m| m.as_bool()).unwrap_or(true);
            let Some(case) = h.get("case").and_then(|c| serde_json::from_value::<c33::Case>(c.clone()).ok()) else { continue };
            let _ = crate::srv::worker_server(modify);
            let _ = locks::take_events();
            crate::srv::set_lock_recording(true);
            let _ = c33::run_with(ctx, &case, modify);
            crate::srv::set_lock_recording(false);
            locks::take_events()
        };
        let (edges, r, _) = analyse(&events);
        for (k, v) in edges {
            all.entry(k).or_insert(v);
        }
        re.extend(r);
    }
    // a read lock taken recursively is a potential deadlock only if some task writes that class
    let written: BTreeSet<String> = WRITTEN.with(|w| w.borrow().clone());
    let recursive: Vec<(String, String)> = RECURSIVE_READS.with(|r| r.borrow().iter().map(|(k, v)| (k.clone(), v.0.clone())).collect());
    for (class, d) in &recursive {
        if written.contains(class) {
            return ctx.fail(format!("recursive-read-of-a-written-lock/{}", class), format!("{}; the same class is locked for writing elsewhere in this run, and a waiting writer between the two reads deadlocks", d));
        }
        ctx.note(&format!("recursive read of {} (no writer of this class was seen in the run, so it cannot deadlock): {}", class, d));
    }
    if u.histories.is_empty() {
        // nothing conflicting was seen: report the accumulated order
        let n = UNION.with(|u| u.borrow().len());
        ctx.note(&format!("the union of the lock-order edges of all histories of this run ({} edges) is acyclic and consistent with the documented order", n));
        UNION.with(|u| {
            for ((a, b), (sa, sb, _)) in u.borrow().iter() {
                ctx.note(&format!("{} -> {}  ({} then {})", a, b, sa, sb));
            }
        });
        return Ok(());
    }
    judge(ctx, &all, &re)
}

// ---------------------------------------------------------------------------------------------
// the real server task on a loopback port: listener, reader, writer, subscription timer, finish monitor, abort poll

use crate::live::{self, Incoming, LiveClient};
use opcua::core::supported_message::SupportedMessage;
use opcua::server::prelude::*;
use std::time::Duration;

#[derive(Clone, Debug, Serialize, Deserialize, PartialEq)]
pub enum LiveOp {
    /// connection c is brought to a level: 1 connected, 2 session created, 3 activated, 4 subscription, 5 monitored item and
    /// two publish requests
    Setup(u8, u8),
    Connect(u8),
    CreateSession(u8),
    /// activate on connection c the session created on connection d
    Activate(u8, u8),
    CreateSubscription(u8),
    CreateItem(u8),
    Publish(u8),
    /// method 0 GetMonitoredItems, 1 ResendData, 2 an unknown method; the subscription of connection d
    Call(u8, u8, u8),
    Read(u8),
    Browse(u8),
    Write(u8),
    Transfer(u8, u8),
    SetPublishing(u8, bool),
    Republish(u8),
    DeleteSubscription(u8),
    CloseSession(u8, bool),
    /// CLO
    CloseChannel(u8),
    /// the socket is dropped without a word
    Drop(u8),
    /// bytes that are not a chunk
    Garbage(u8),
    Renew(u8),
    /// k x 55 ms, so that the 100 ms subscription timer fires in between
    Wait(u8),
    /// read whatever the server sent meanwhile
    Drain(u8),
}

fn live_op() -> impl Strategy<Value = LiveOp> {
    let c = || 0u8..3;
    prop_oneof![
        9 => (c(), 1u8..6).prop_map(|(a, l)| LiveOp::Setup(a, l)),
        3 => c().prop_map(LiveOp::Connect),
        6 => c().prop_map(LiveOp::CreateSession),
        6 => (c(), c()).prop_map(|(a, b)| LiveOp::Activate(a, b)),
        5 => c().prop_map(LiveOp::CreateSubscription),
        5 => c().prop_map(LiveOp::CreateItem),
        6 => c().prop_map(LiveOp::Publish),
        8 => (c(), 0u8..3, c()).prop_map(|(a, m, d)| LiveOp::Call(a, m, d)),
        2 => c().prop_map(LiveOp::Read),
        2 => c().prop_map(LiveOp::Browse),
        2 => c().prop_map(LiveOp::Write),
        3 => (c(), c()).prop_map(|(a, b)| LiveOp::Transfer(a, b)),
        2 => (c(), any::<bool>()).prop_map(|(a, b)| LiveOp::SetPublishing(a, b)),
        2 => c().prop_map(LiveOp::Republish),
        2 => c().prop_map(LiveOp::DeleteSubscription),
        3 => (c(), any::<bool>()).prop_map(|(a, b)| LiveOp::CloseSession(a, b)),
        2 => c().prop_map(LiveOp::CloseChannel),
        2 => c().prop_map(LiveOp::Drop),
        1 => c().prop_map(LiveOp::Garbage),
        2 => c().prop_map(LiveOp::Renew),
        5 => (1u8..4).prop_map(LiveOp::Wait),
        5 => c().prop_map(LiveOp::Drain),
    ]
}

#[derive(Default)]
struct Slot {
    client: Option<LiveClient>,
    /// (session id, authentication token) created on this connection
    session: Option<(NodeId, NodeId)>,
    /// the token this connection uses in request headers (after a successful Activate)
    token: NodeId,
    sub: u32,
    last_seq: u32,
}

/// reads whatever the server sent meanwhile; remembers the last notification for the next acknowledgement
async fn drain(s: &mut Slot, stats: &mut BTreeMap<&'static str, u64>) {
    let Some(cl) = s.client.as_mut() else { return };
    loop {
        let got = cl.recv(Duration::from_millis(1)).await;
        if std::env::var_os("VERIF_TRACE").is_some() {
            eprintln!("drain: {:?}", got);
        }
        match got {
            Incoming::Message(_, SupportedMessage::PublishResponse(r)) => {
                if r.notification_message.notification_data.as_ref().map(|d| !d.is_empty()).unwrap_or(false) {
                    s.last_seq = r.notification_message.sequence_number;
                    *stats.entry("notification_received").or_insert(0) += 1;
                } else {
                    *stats.entry("keep_alive_received").or_insert(0) += 1;
                }
            }
            Incoming::Message(_, SupportedMessage::ServiceFault(f)) => {
                let k = match f.response_header.service_result {
                    StatusCode::BadNoSubscription => "late_fault_BadNoSubscription",
                    StatusCode::BadTooManyPublishRequests => "late_fault_BadTooManyPublishRequests",
                    StatusCode::BadSessionIdInvalid => "late_fault_BadSessionIdInvalid",
                    StatusCode::BadSessionNotActivated => "late_fault_BadSessionNotActivated",
                    StatusCode::BadTimeout => "late_fault_BadTimeout",
                    _ => "late_fault_other",
                };
                *stats.entry(k).or_insert(0) += 1;
            }
            Incoming::Message(..) => {
                *stats.entry("late_other_message").or_insert(0) += 1;
            }
            Incoming::Closed => {
                s.client = None;
                *stats.entry("found_closed_by_server").or_insert(0) += 1;
                break;
            }
            Incoming::Undecodable(_) => {
                *stats.entry("undecodable_from_server").or_insert(0) += 1;
                break;
            }
            _ => break,
        }
    }
}

fn good(i: &Incoming) -> bool {
    matches!(i, Incoming::Message(_, m) if !matches!(m, SupportedMessage::ServiceFault(_)) && m.response_header().service_result.is_good())
}

async fn live_history(ops: &[LiveOp], port: u16, stats: &mut BTreeMap<&'static str, u64>) -> Result<(), String> {
    let mut slots: Vec<Slot> = (0..3).map(|_| Slot::default()).collect();
    macro_rules! bump {
        ($k:expr) => {
            *stats.entry($k).or_insert(0) += 1
        };
    }
    let mut expanded: Vec<LiveOp> = Vec::new();
    for op in ops {
        match op {
            LiveOp::Setup(c, level) => {
                let steps = [LiveOp::Connect(*c), LiveOp::CreateSession(*c), LiveOp::Activate(*c, *c), LiveOp::CreateSubscription(*c), LiveOp::CreateItem(*c), LiveOp::Publish(*c), LiveOp::Publish(*c)];
                let n = match level {
                    0 => 0,
                    1..=4 => *level as usize,
                    _ => steps.len(),
                };
                expanded.extend(steps[..n].iter().cloned());
            }
            other => expanded.push(other.clone()),
        }
    }
    for op in &expanded {
        match op {
            LiveOp::Connect(c) => {
                let s = &mut slots[*c as usize];
                if s.client.is_none() {
                    *s = Slot::default();
                    s.client = Some(LiveClient::connect(port).await?);
                    bump!("connected");
                }
            }
            LiveOp::Wait(k) => {
                tokio::time::sleep(Duration::from_millis(55 * *k as u64)).await;
                for s in slots.iter_mut() {
                    drain(s, stats).await;
                }
            }
            LiveOp::Activate(c, d) => {
                let session = slots[*d as usize].session.clone();
                let s = &mut slots[*c as usize];
                if let (Some(cl), Some((_, token))) = (s.client.as_mut(), session) {
                    let h = cl.header(&token);
                    let r = cl
                        .call(ActivateSessionRequest { request_header: h, client_signature: SignatureData::null(), client_software_certificates: None, locale_ids: None, user_identity_token: crate::srv::Conn::anonymous_token(), user_token_signature: SignatureData::null() })
                        .await;
                    if good(&r) {
                        s.token = token;
                        bump!(if c == d { "activated" } else { "activated_on_another_connection" });
                    }
                }
            }
            LiveOp::Transfer(c, d) => {
                let sub = slots[*d as usize].sub;
                let s = &mut slots[*c as usize];
                if let Some(cl) = s.client.as_mut() {
                    let h = cl.header(&s.token);
                    let r = cl.call(TransferSubscriptionsRequest { request_header: h, subscription_ids: Some(vec![sub]), send_initial_values: true }).await;
                    if good(&r) {
                        bump!("transfer_answered");
                    }
                }
            }
            LiveOp::Call(c, m, d) => {
                let sub = slots[*d as usize].sub;
                let s = &mut slots[*c as usize];
                if let Some(cl) = s.client.as_mut() {
                    let h = cl.header(&s.token);
                    let method_id: NodeId = match m {
                        0 => MethodId::Server_GetMonitoredItems.into(),
                        1 => MethodId::Server_ResendData.into(),
                        _ => NodeId::new(1, "no-such-method"),
                    };
                    let r = cl.call(CallRequest { request_header: h, methods_to_call: Some(vec![CallMethodRequest { object_id: ObjectId::Server.into(), method_id, input_arguments: Some(vec![Variant::UInt32(sub)]) }]) }).await;
                    if let Incoming::Message(_, SupportedMessage::CallResponse(r)) = &r {
                        bump!("call_answered");
                        if r.results.iter().flatten().any(|x| x.status_code.is_good()) {
                            bump!("method_handler_succeeded");
                        }
                    }
                }
            }
            other => {
                let c = match other {
                    LiveOp::CreateSession(c) | LiveOp::CreateSubscription(c) | LiveOp::CreateItem(c) | LiveOp::Publish(c) | LiveOp::Read(c) | LiveOp::Browse(c) | LiveOp::Write(c) | LiveOp::SetPublishing(c, _) | LiveOp::Republish(c) | LiveOp::DeleteSubscription(c) | LiveOp::CloseSession(c, _) | LiveOp::CloseChannel(c) | LiveOp::Drop(c) | LiveOp::Garbage(c) | LiveOp::Renew(c) | LiveOp::Drain(c) => *c as usize,
                    _ => 0,
                };
                let s = &mut slots[c];
                let Some(cl) = s.client.as_mut() else { continue };
                let token = s.token.clone();
                match other {
                    LiveOp::CreateSession(_) => {
                        let h = cl.header(&NodeId::null());
                        let r = cl
                            .call(CreateSessionRequest {
                                request_header: h,
                                client_description: ApplicationDescription::default(),
                                server_uri: UAString::null(),
                                endpoint_url: UAString::from(live::endpoint_url(port)),
                                session_name: UAString::from("verif"),
                                client_nonce: ByteString::null(),
                                client_certificate: ByteString::null(),
                                requested_session_timeout: 60_000.0,
                                max_response_message_size: 0,
                            })
                            .await;
                        if let Incoming::Message(_, SupportedMessage::CreateSessionResponse(r)) = r {
                            s.session = Some((r.session_id.clone(), r.authentication_token.clone()));
                            bump!("session_created");
                        }
                    }
                    LiveOp::CreateSubscription(_) => {
                        let h = cl.header(&token);
                        let r = cl.call(CreateSubscriptionRequest { request_header: h, requested_publishing_interval: 100.0, requested_lifetime_count: 6, requested_max_keep_alive_count: 2, max_notifications_per_publish: 0, publishing_enabled: true, priority: 0 }).await;
                        if let Incoming::Message(_, SupportedMessage::CreateSubscriptionResponse(r)) = r {
                            s.sub = r.subscription_id;
                            bump!("subscription_created");
                        }
                    }
                    LiveOp::CreateItem(_) => {
                        let h = cl.header(&token);
                        let item = MonitoredItemCreateRequest {
                            item_to_monitor: ReadValueId::from(NodeId::from(&VariableId::Server_ServerStatus_CurrentTime)),
                            monitoring_mode: MonitoringMode::Reporting,
                            requested_parameters: MonitoringParameters { client_handle: 1, sampling_interval: 100.0, filter: ExtensionObject::null(), queue_size: 2, discard_oldest: true },
                        };
                        let r = cl.call(CreateMonitoredItemsRequest { request_header: h, subscription_id: s.sub, timestamps_to_return: TimestampsToReturn::Both, items_to_create: Some(vec![item]) }).await;
                        if let Incoming::Message(_, SupportedMessage::CreateMonitoredItemsResponse(r)) = r {
                            if r.results.iter().flatten().any(|x| x.status_code.is_good()) {
                                bump!("item_created");
                            }
                        }
                    }
                    LiveOp::Publish(_) => {
                        let h = cl.header(&token);
                        let acks = if s.last_seq != 0 { Some(vec![SubscriptionAcknowledgement { subscription_id: s.sub, sequence_number: s.last_seq }]) } else { None };
                        let _ = cl.send(&PublishRequest { request_header: h, subscription_acknowledgements: acks }.into()).await;
                        bump!("publish_sent");
                    }
                    LiveOp::Read(_) => {
                        let h = cl.header(&token);
                        let _ = cl.call(ReadRequest { request_header: h, max_age: 0.0, timestamps_to_return: TimestampsToReturn::Both, nodes_to_read: Some(vec![ReadValueId::from(NodeId::from(&VariableId::Server_ServerStatus_State))]) }).await;
                    }
                    LiveOp::Browse(_) => {
                        let h = cl.header(&token);
                        let d = BrowseDescription { node_id: ObjectId::RootFolder.into(), browse_direction: BrowseDirection::Forward, reference_type_id: NodeId::null(), include_subtypes: true, node_class_mask: 0, result_mask: 63 };
                        let _ = cl.call(BrowseRequest { request_header: h, view: ViewDescription { view_id: NodeId::null(), timestamp: DateTime::null(), view_version: 0 }, requested_max_references_per_node: 1, nodes_to_browse: Some(vec![d]) }).await;
                    }
                    LiveOp::Write(_) => {
                        let h = cl.header(&token);
                        let w = WriteValue { node_id: NodeId::from(&VariableId::Server_ServerStatus_State), attribute_id: AttributeId::Value as u32, index_range: UAString::null(), value: DataValue::value_only(0i32) };
                        let _ = cl.call(WriteRequest { request_header: h, nodes_to_write: Some(vec![w]) }).await;
                    }
                    LiveOp::SetPublishing(_, on) => {
                        let h = cl.header(&token);
                        let _ = cl.call(SetPublishingModeRequest { request_header: h, publishing_enabled: *on, subscription_ids: Some(vec![s.sub]) }).await;
                    }
                    LiveOp::Republish(_) => {
                        let h = cl.header(&token);
                        let _ = cl.call(RepublishRequest { request_header: h, subscription_id: s.sub, retransmit_sequence_number: s.last_seq.max(1) }).await;
                    }
                    LiveOp::DeleteSubscription(_) => {
                        let h = cl.header(&token);
                        let r = cl.call(DeleteSubscriptionsRequest { request_header: h, subscription_ids: Some(vec![s.sub]) }).await;
                        if good(&r) {
                            bump!("subscription_delete_answered");
                        }
                    }
                    LiveOp::CloseSession(_, delete) => {
                        let h = cl.header(&token);
                        let r = cl.call(CloseSessionRequest { request_header: h, delete_subscriptions: *delete }).await;
                        if good(&r) {
                            bump!("session_closed");
                            s.token = NodeId::null();
                        }
                    }
                    LiveOp::CloseChannel(_) => {
                        let h = cl.header(&token);
                        let _ = cl.send(&CloseSecureChannelRequest { request_header: h }.into()).await;
                        // the server closes the socket
                        let _ = cl.recv(Duration::from_millis(300)).await;
                        s.client = None;
                        bump!("channel_closed");
                    }
                    LiveOp::Drop(_) => {
                        s.client = None;
                        bump!("socket_dropped");
                    }
                    LiveOp::Garbage(_) => {
                        let _ = cl.send_raw(b"MSGF\x10\x00\x00\x00\xff\xff\xff\xff\xff\xff\xff\xff").await;
                        let _ = cl.recv(Duration::from_millis(300)).await;
                        s.client = None;
                        bump!("garbage_sent");
                    }
                    LiveOp::Renew(_) => {
                        let mut open = cl.peer.open_request();
                        if let SupportedMessage::OpenSecureChannelRequest(r) = &mut open {
                            r.request_type = SecurityTokenRequestType::Renew;
                        }
                        if let Incoming::Message(_, SupportedMessage::OpenSecureChannelResponse(r)) = cl.call(open).await {
                            cl.peer.channel.set_token_id(r.security_token.token_id);
                            bump!("channel_renewed");
                        }
                    }
                    LiveOp::Drain(_) => drain(s, stats).await,
                    _ => {}
                }
            }
        }
    }
    // the end of every history: two more timer periods, then every connection goes away and the server tidies up
    for _ in 0..2 {
        tokio::time::sleep(Duration::from_millis(110)).await;
        for s in slots.iter_mut() {
            drain(s, stats).await;
        }
    }
    for s in slots.iter_mut() {
        s.client = None;
    }
    tokio::time::sleep(Duration::from_millis(60)).await;
    Ok(())
}

/// runs one live history with the lock tracing on; returns the events of the worker thread (all server tasks run on it)
fn live_events(ops: &[LiveOp]) -> Result<(Vec<locks::LockEvent>, BTreeMap<&'static str, u64>), Failure> {
    let live = live::live_server(true);
    let _ = locks::take_events();
    crate::srv::set_lock_recording(true);
    let ops2 = ops.to_vec();
    let port = live.port;
    let r = guarded(|| {
        let mut st = BTreeMap::new();
        let r = block_on(async { tokio::time::timeout(Duration::from_secs(60), live_history(&ops2, port, &mut st)).await });
        (r, st)
    });
    crate::srv::set_lock_recording(false);
    let events = locks::take_events();
    match r {
        Ok((Ok(Ok(())), st)) => Ok((events, st)),
        Ok((Ok(Err(e)), _)) => harness_error(&format!("live fixture: {}", e)),
        Ok((Err(_), _)) => harness_error("live history did not finish within 60 s"),
        Err(f) => Err(f),
    }
}

fn run_live(ctx: &Ctx, ops: &Vec<LiveOp>) -> PResult {
    let (events, stats) = live_events(ops)?;
    for (k, v) in &stats {
        ctx.class_n(k, *v);
    }
    let (edges, reacquired, recursive_reads, max_held) = analyse_full(&events);
    WRITTEN.with(|w| {
        let mut w = w.borrow_mut();
        for e in events.iter().filter(|e| e.acquire && e.mode != "read") {
            w.insert(short(e.class));
        }
    });
    let case_json = serde_json::json!({ "live": ops });
    for (class, d) in recursive_reads {
        ctx.class(&format!("recursive_read_of_{}", class));
        RECURSIVE_READS.with(|r| {
            r.borrow_mut().entry(class).or_insert((d, case_json.clone()));
        });
    }
    let timer = events.iter().any(|e| e.acquire && e.file.ends_with("tcp_transport.rs") && short(e.class) == "AddressSpace");
    let teardown = events.iter().any(|e| e.acquire && e.file.ends_with("server/session.rs") && short(e.class) == "SessionDiagnostics" && e.mode == "write");
    if timer {
        ctx.class("subscription_timer_ticked_a_session");
    }
    if teardown {
        ctx.class("teardown_cleared_a_session");
    }
    if events.iter().any(|e| e.acquire && short(e.class) == "Connections" || e.acquire && e.file.ends_with("server/server.rs") && short(e.class) == "SessionManager") {
        ctx.class("abort_poll_looked_at_connections");
    }
    if max_held >= 2 && (timer || teardown) {
        ctx.nontrivial();
    }
    ctx.class_n("lock_acquisitions", events.iter().filter(|e| e.acquire).count() as u64);
    for ((a, b), (_, _, n)) in &edges {
        ctx.class_n(&format!("edge {} -> {}", a, b), *n);
    }
    UNION.with(|u| {
        let mut u = u.borrow_mut();
        for ((a, b), (sa, sb, _)) in &edges {
            u.entry((a.clone(), b.clone())).or_insert((sa.clone(), sb.clone(), case_json.clone()));
        }
    });
    judge(ctx, &edges, &reacquired)
}

pub fn def() -> PropDef {
    PropDef {
        id: "C38",
        rule: "the request histories of C33 (1..8 structure-aware requests of 30 services on an activated session, with and without the right to modify the address space, an event, 0..3 subscription ticks, a final Read) run with the lock tracing hook on: every acquisition and release of a traced server lock (ServerState, ServerConfig, SessionManager, Session, AddressSpace, SecureChannel, CertificateStore, diagnostics ...) is recorded with its class, mode, instance and source line; per history and over the union of all histories of the run the 'held -> acquired' graph over lock classes must be acyclic and consistent with the documented order ServerState -> Session -> AddressSpace, no lock instance may be taken again while it is held, and no second lock of the same class may be taken while one is held; non-trivial = a history that holds at least two locks at once; distinct = distinct history",
        assumptions: &[
            "lock classes, not instances; only paths executed by the generated histories; single-threaded recording (the order graph finds potential deadlocks without having to hit the interleaving)",
            "the reading/writing/timer tasks of a real connection are not run; their lock use is covered as far as it goes through the message handler and the session tick hooks",
        ],
        abort_possible: true,
        parts: |tier| {
            vec![
                part("histories_modify_allowed", tier.pick(700, 20000), c33::case(), |ctx, c| run(ctx, c, true)),
                part("histories_read_only", tier.pick(300, 10000), c33::case(), |ctx, c| run(ctx, c, false)),
                part("live_server_histories", tier.pick(40, 1500), prop::collection::vec(live_op(), 3..24), run_live),
                part_enum("union_of_all_histories", union_cases, run_union),
            ]
        },
    }
}

//! C20 — Session activation authenticates the user exactly as configured.
use crate::engine::*;
use crate::fixtures;
use crate::srv::{self, SrvOpts};
use opcua::crypto::user_identity::legacy_password_encrypt;
use opcua::crypto::{self as crypto, pkey::RsaPadding, SecurityPolicy};
use opcua::server::prelude::*;
use proptest::prelude::*;
use serde::{Deserialize, Serialize};
use std::cell::RefCell;
use std::collections::BTreeSet;

/// users of the universe: 0 anonymous, 1 userA ("passA€"), 2 userB (empty password), 3 x509 user (certificate rsa2048a),
/// 4 second x509 user (certificate rsa1024a)
const USER_IDS: [&str; 5] = [ANONYMOUS_USER_TOKEN_ID, "user_a", "user_b", "x509_a", "x509_b"];
const X509_CERTS: [&str; 2] = ["rsa2048a", "rsa1024a"];

#[derive(Clone, Debug, Serialize, Deserialize, PartialEq)]
pub struct EndpointCfg {
    /// 0 None/None, 1 Basic256Sha256/Sign, 2 Basic128Rsa15/SignAndEncrypt
    pub security: u8,
    /// bit mask over USER_IDS
    pub users: u8,
    /// 0 unset, 1 Basic128Rsa15, 2 Basic256Sha256
    pub password_policy: u8,
}

#[derive(Clone, Debug, Serialize, Deserialize, PartialEq)]
pub enum Token {
    /// policy id right?
    Anonymous(bool),
    /// policy id (0 the endpoint's, 1 userpass_none, 2 userpass_rsa_15, 3 userpass_rsa_oaep, 4 garbage), user (0 userA, 1 userB, 2 name of
    /// the x509 user, 3 unknown, 4 null), password (0 the configured one, 1 wrong, 2 empty), encryption (0 plain, 1 RSA-15, 2 OAEP,
    /// 3 unknown algorithm with plain bytes), nonce used for encryption (0 current, 1 previous, 2 random)
    UserName(u8, u8, u8, u8, u8),
    /// policy id right?, certificate (0 rsa2048a, 1 rsa1024a, 2 rsa2048b = nobody's), signed with the matching key?, nonce (0 current,
    /// 1 previous), signature policy (0 the one the server expects, 1 another)
    X509(bool, u8, bool, u8, u8),
    Null,
}

#[derive(Clone, Debug, Serialize, Deserialize, PartialEq)]
pub struct Case {
    pub endpoints: Vec<EndpointCfg>,
    /// endpoint the session was created on (index into endpoints)
    pub on: u8,
    pub tokens: Vec<Token>,
}

fn token() -> impl Strategy<Value = Token> {
    prop_oneof![
        2 => proptest::bool::weighted(0.8).prop_map(Token::Anonymous),
        6 => (prop_oneof![4 => Just(0u8), 1 => 1u8..5], 0u8..5, prop_oneof![3 => Just(0u8), 1 => Just(1u8), 1 => Just(2u8)], prop_oneof![2 => Just(0u8), 2 => Just(1u8), 2 => Just(2u8), 1 => Just(3u8)], prop_oneof![3 => Just(0u8), 2 => Just(1u8), 1 => Just(2u8)]).prop_map(|(a, b, c, d, e)| Token::UserName(a, b, c, d, e)),
        4 => (proptest::bool::weighted(0.85), 0u8..3, proptest::bool::weighted(0.8), prop_oneof![3 => Just(0u8), 1 => Just(1u8)], prop_oneof![4 => Just(0u8), 1 => Just(1u8)]).prop_map(|(a, b, c, d, e)| Token::X509(a, b, c, d, e)),
        1 => Just(Token::Null),
    ]
}

fn case() -> impl Strategy<Value = Case> {
    (prop::collection::vec((0u8..3, any::<u8>(), prop_oneof![3 => Just(0u8), 1 => Just(1u8), 1 => Just(2u8)]).prop_map(|(security, users, password_policy)| EndpointCfg { security, users, password_policy }), 1..4), any::<u8>(), prop::collection::vec(token(), 1..6))
        .prop_map(|(endpoints, on, tokens)| Case { endpoints, on, tokens })
}

thread_local! {
    static SERVER: RefCell<Option<Server>> = const { RefCell::new(None) };
}

fn security(k: u8) -> (SecurityPolicy, MessageSecurityMode) {
    match k % 3 {
        0 => (SecurityPolicy::None, MessageSecurityMode::None),
        1 => (SecurityPolicy::Basic256Sha256, MessageSecurityMode::Sign),
        _ => (SecurityPolicy::Basic128Rsa15, MessageSecurityMode::SignAndEncrypt),
    }
}

fn run(ctx: &Ctx, c: &Case) -> PResult {
    // one endpoint per security setting (later ones with the same setting are dropped, as a config map would)
    let mut seen = BTreeSet::new();
    let endpoints: Vec<&EndpointCfg> = c.endpoints.iter().filter(|e| seen.insert(e.security % 3)).collect();
    let on = endpoints[c.on as usize % endpoints.len()];
    let (policy, mode) = security(on.security);

    let state = SERVER.with(|s| {
        let mut s = s.borrow_mut();
        if s.is_none() {
            *s = Some(srv::server(&SrvOpts::default()));
        }
        s.as_ref().unwrap().server_state()
    });
    // install the generated configuration
    {
        let st = state.read();
        let mut cfg = st.config.write();
        cfg.user_tokens.clear();
        cfg.user_tokens.insert("user_a".into(), ServerUserToken::user_pass(srv::USER_A.0, srv::USER_A.1));
        cfg.user_tokens.insert("user_b".into(), ServerUserToken { user: srv::USER_B.0.into(), pass: None, x509: None, thumbprint: None });
        for (i, name) in ["x509_a", "x509_b"].iter().enumerate() {
            let cert = fixtures::load_cert(X509_CERTS[i]);
            cfg.user_tokens.insert((*name).into(), ServerUserToken { user: format!("certuser{}", i), pass: None, x509: Some(format!("{}.der", X509_CERTS[i])), thumbprint: Some(cert.thumbprint()) });
        }
        cfg.endpoints.clear();
        for (i, e) in endpoints.iter().enumerate() {
            let (p, m) = security(e.security);
            let users: Vec<String> = (0..USER_IDS.len()).filter(|k| e.users & (1 << k) != 0).map(|k| USER_IDS[k].to_string()).collect();
            let mut ep = ServerEndpoint::new("/", p, m, &users);
            ep.password_security_policy = match e.password_policy % 3 {
                0 => None,
                1 => Some("Basic128Rsa15".into()),
                _ => Some("Basic256Sha256".into()),
            };
            cfg.endpoints.insert(format!("e{}", i), ep);
        }
    }
    let st = state.read();
    let server_cert = st.server_certificate.clone().ok_or_else(|| Failure { sig: "setup".into(), detail: "no server certificate".into() })?;
    let has = |k: usize| on.users & (1 << k) != 0;
    let supports_user_pass = has(1) || has(2);
    let supports_x509 = has(3) || has(4);
    let password_policy = match on.password_policy % 3 {
        0 => policy,
        1 => SecurityPolicy::Basic128Rsa15,
        _ => SecurityPolicy::Basic256Sha256,
    };
    let endpoint_policy_id = match password_policy {
        SecurityPolicy::None => "userpass_none",
        SecurityPolicy::Basic128Rsa15 => "userpass_rsa_15",
        _ => "userpass_rsa_oaep",
    };
    let nonces: [ByteString; 2] = [ByteString::from(vec![0x11u8; 32]), ByteString::from(vec![0x22u8; 32])];
    let current = &nonces[0];
    let mut nontrivial = false;

    for (i, t) in c.tokens.iter().enumerate() {
        let mut signature = SignatureData::null();
        let (identity, expect): (ExtensionObject, bool) = match t {
            Token::Null => (ExtensionObject::null(), has(0)),
            Token::Anonymous(right) => (
                ExtensionObject::from_encodable(ObjectId::AnonymousIdentityToken_Encoding_DefaultBinary, &AnonymousIdentityToken { policy_id: UAString::from(if *right { "anonymous" } else { "userpass_none" }) }),
                *right && has(0),
            ),
            Token::UserName(pid, user, pass, enc, nonce_sel) => {
                let policy_id = match pid {
                    0 => endpoint_policy_id,
                    1 => "userpass_none",
                    2 => "userpass_rsa_15",
                    3 => "userpass_rsa_oaep",
                    _ => "nonsense",
                };
                let (user_name, configured_password, user_allowed): (UAString, Option<&str>, bool) = match user {
                    0 => (UAString::from(srv::USER_A.0), Some(srv::USER_A.1), has(1)),
                    1 => (UAString::from(srv::USER_B.0), Some(""), has(2)),
                    // the name of an X.509 user: not a user/password user
                    2 => (UAString::from("certuser0"), None, false),
                    3 => (UAString::from("mallory"), None, false),
                    _ => (UAString::null(), None, false),
                };
                let password: String = match pass {
                    0 => configured_password.unwrap_or("x").to_string(),
                    1 => "wrong".to_string(),
                    _ => String::new(),
                };
                let password_right = configured_password == Some(password.as_str());
                let enc_nonce: ByteString = match nonce_sel {
                    0 => current.clone(),
                    1 => nonces[1].clone(),
                    _ => ByteString::from(vec![i as u8; 32]),
                };
                let (algorithm, secret, decryptable): (UAString, ByteString, bool) = match enc {
                    0 => (UAString::null(), ByteString::from(password.as_bytes()), true),
                    1 | 2 => {
                        let (alg, padding) = if *enc == 1 { ("http://www.w3.org/2001/04/xmlenc#rsa-1_5", RsaPadding::Pkcs1) } else { ("http://www.w3.org/2001/04/xmlenc#rsa-oaep", RsaPadding::OaepSha1) };
                        match legacy_password_encrypt(&password, enc_nonce.as_ref(), &server_cert, padding) {
                            Ok(s) => (UAString::from(alg), s, *nonce_sel == 0),
                            Err(_) => continue,
                        }
                    }
                    _ => (UAString::from("http://example.org/unknown-algorithm"), ByteString::from(password.as_bytes()), false),
                };
                if *enc == 1 || *enc == 2 {
                    if *nonce_sel != 0 && password_right && user_allowed && policy_id == endpoint_policy_id {
                        // a token that would be accepted, except that it was encrypted for another nonce
                        nontrivial = true;
                        ctx.class("replay_of_token_encrypted_for_an_earlier_nonce");
                    }
                }
                let tok = UserNameIdentityToken { policy_id: UAString::from(policy_id), user_name, password: secret, encryption_algorithm: algorithm };
                (ExtensionObject::from_encodable(ObjectId::UserNameIdentityToken_Encoding_DefaultBinary, &tok), supports_user_pass && policy_id == endpoint_policy_id && user_allowed && password_right && decryptable)
            }
            Token::X509(right_policy, cert_sel, right_key, nonce_sel, sig_policy) => {
                let cert_name = ["rsa2048a", "rsa1024a", "rsa2048b"][*cert_sel as usize % 3];
                let cert = fixtures::load_cert(cert_name);
                let key_name = if *right_key { cert_name } else if cert_name == "rsa2048a" { "rsa2048b" } else { "rsa2048a" };
                let key = fixtures::load_key(key_name);
                // the server announces Basic128Rsa15 for certificate tokens
                let expected_sig_policy = SecurityPolicy::Basic128Rsa15;
                let used_policy = if *sig_policy == 0 { expected_sig_policy } else { SecurityPolicy::Basic256Sha256 };
                let nonce = &nonces[*nonce_sel as usize % 2];
                signature = crypto::create_signature_data(&key, used_policy, &server_cert.as_byte_string(), nonce).unwrap_or_else(|_| SignatureData::null());
                let configured = match cert_sel % 3 {
                    0 => has(3),
                    1 => has(4),
                    _ => false,
                };
                if configured && *right_policy && *right_key && *sig_policy == 0 && *nonce_sel != 0 {
                    nontrivial = true;
                    ctx.class("x509_signature_over_an_earlier_nonce");
                }
                let tok = X509IdentityToken { policy_id: UAString::from(if *right_policy { "x509" } else { "anonymous" }), certificate_data: cert.as_byte_string() };
                (ExtensionObject::from_encodable(ObjectId::X509IdentityToken_Encoding_DefaultBinary, &tok), supports_x509 && *right_policy && configured && *right_key && *nonce_sel == 0 && *sig_policy == 0)
            }
        };
        let request = ActivateSessionRequest { request_header: RequestHeader::dummy(), client_signature: SignatureData::null(), client_software_certificates: None, locale_ids: None, user_identity_token: identity.clone(), user_token_signature: signature };
        let r = ctx.guard(|| st.authenticate_endpoint(&request, srv::ENDPOINT_URL, policy, mode, &identity, current))?;
        ctx.class(if expect { "expected_accept" } else { "expected_reject" });
        if expect {
            nontrivial = true;
        }
        match (&r, expect) {
            (Ok(_), true) | (Err(_), false) => {}
            (Ok(id), false) => {
                return ctx.fail(
                    match t {
                        Token::UserName(..) => "accepted/user-name",
                        Token::X509(..) => "accepted/x509",
                        _ => "accepted/anonymous",
                    },
                    format!("token {} {:?} on endpoint {:?} (password policy {:?}) was accepted as {:?}; the configuration does not allow it", i, t, on, password_policy, id),
                )
            }
            (Err(e), true) => return ctx.fail("refused/configured-user", format!("token {} {:?} on endpoint {:?} was refused with {}", i, t, on, e)),
        }
    }
    if nontrivial {
        ctx.nontrivial();
    }
    Ok(())
}

pub fn def() -> PropDef {
    PropDef {
        id: "C20",
        rule: "a configuration universe installed into a real ServerState per case: 1..3 endpoints (None/None, Basic256Sha256/Sign, Basic128Rsa15/SignAndEncrypt) each with a generated subset of {anonymous, userA with password, userB with empty password, two X.509 users} and an optional password security policy; 1..5 identity tokens per case against the endpoint of the session: anonymous / null with right or wrong policy id; user name tokens with the endpoint's or another policy id, configured / X.509-only / unknown / null user names, right / wrong / empty passwords, plain or encrypted (RSA-15, OAEP, unknown algorithm) for the current, the previous or a random nonce; X.509 tokens with right or wrong policy id, configured or foreign certificate, signature by the matching or another key, over the current or the previous nonce, with the expected or another signature policy; oracle: the decision function of the property evaluated independently, both directions; non-trivial = an accepted token, or a replay of an otherwise acceptable token made for an earlier nonce; distinct = distinct case",
        assumptions: &[
            "the decision is taken by ServerState::authenticate_endpoint, which ActivateSession calls with the session's current nonce; the nonce renewal on activation itself is part of C19's dispatcher histories",
            "the server's own certificate is the fixture rsa2048b; certificate tokens are verified with Basic128Rsa15, the policy the server announces for them",
        ],
        abort_possible: false,
        parts: |tier| vec![part("authenticate", tier.pick(600, 150_000), case(), run)],
    }
}

//! Counting global allocator: per-thread live bytes, peak and largest single request, used by the
//! allocation-bound oracles (C02, C10).
use std::alloc::{GlobalAlloc, Layout, System};
use std::cell::Cell;

pub struct Counting;

thread_local! {
    static CUR: Cell<isize> = const { Cell::new(0) };
    static PEAK: Cell<isize> = const { Cell::new(0) };
    static MAXREQ: Cell<usize> = const { Cell::new(0) };
}

unsafe impl GlobalAlloc for Counting {
    unsafe fn alloc(&self, l: Layout) -> *mut u8 {
        let _ = CUR.try_with(|c| {
            let v = c.get() + l.size() as isize;
            c.set(v);
            let _ = PEAK.try_with(|p| if v > p.get() { p.set(v) });
        });
        let _ = MAXREQ.try_with(|m| if l.size() > m.get() { m.set(l.size()) });
        System.alloc(l)
    }
    unsafe fn dealloc(&self, p: *mut u8, l: Layout) {
        let _ = CUR.try_with(|c| c.set(c.get() - l.size() as isize));
        System.dealloc(p, l)
    }
    unsafe fn alloc_zeroed(&self, l: Layout) -> *mut u8 {
        let _ = CUR.try_with(|c| {
            let v = c.get() + l.size() as isize;
            c.set(v);
            let _ = PEAK.try_with(|p| if v > p.get() { p.set(v) });
        });
        let _ = MAXREQ.try_with(|m| if l.size() > m.get() { m.set(l.size()) });
        System.alloc_zeroed(l)
    }
    unsafe fn realloc(&self, p: *mut u8, l: Layout, new_size: usize) -> *mut u8 {
        let _ = CUR.try_with(|c| {
            let v = c.get() + new_size as isize - l.size() as isize;
            c.set(v);
            let _ = PEAK.try_with(|p| if v > p.get() { p.set(v) });
        });
        let _ = MAXREQ.try_with(|m| if new_size > m.get() { m.set(new_size) });
        System.realloc(p, l, new_size)
    }
}

/// start measuring on the calling thread
pub fn reset() {
    CUR.with(|c| c.set(0));
    PEAK.with(|c| c.set(0));
    MAXREQ.with(|c| c.set(0));
}

/// (peak growth in bytes since reset, largest single request) on the calling thread
pub fn read() -> (usize, usize) {
    (PEAK.with(|c| c.get()).max(0) as usize, MAXREQ.with(|c| c.get()))
}
